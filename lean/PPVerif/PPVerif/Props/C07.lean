/-
  Property C07 — unsupplied parts are reported as unsupplied, everything else is solved.
  The energizing graph is the model of C26 (TopoDefs) with switches respected and every element table included; the
  power-flow side (ppc connectivity check with auxiliary buses) is tied to it by correspondence on every run.
  The search is proved sound AND complete (fuel = number of nodes suffices: each round before the fixed point finds a new node),
  so `unsupplied` is exactly the set of nodes without an energizing path from a slack bus.
-/
import PPVerif.Model.TopoDefs
import PPVerif.Props.C26
import Mathlib.Data.Finset.Card
import Mathlib.Data.List.Basic
import Mathlib.Data.Finset.Dedup

namespace PPVerif.C07
open PPVerif.Topo PPVerif.C26

/-- options with which `unsupplied_buses(net)` builds its graph -/
def defaultOpts : Opts := ⟨true, fun _ => true, false, [], [], none, none⟩

/-- a bus reported as unsupplied is an in-service bus of the graph that the search from the slack buses did not reach -/
theorem C07_unsupplied_sound (net : Net) (slacks : List Nat) (b : Nat) (h : b ∈ unsupplied net defaultOpts slacks) :
    b ∈ nodes net defaultOpts ∧ b ∉ reach net defaultOpts slacks := by
  simpa [unsupplied, List.mem_filter] using h

/-- every in-service bus NOT reported as unsupplied has an energizing path from an in-service slack bus -/
theorem C07_supplied_has_path (net : Net) (slacks : List Nat) (b : Nat) (hb : b ∈ nodes net defaultOpts)
    (h : b ∉ unsupplied net defaultOpts slacks) : ∃ r ∈ slacks, Path net defaultOpts r b := by
  have : b ∈ reach net defaultOpts slacks := by
    by_cases hr : b ∈ reach net defaultOpts slacks
    · exact hr
    · exact absurd (by simp [unsupplied, List.mem_filter, hb, hr]) h
  exact C26_reach_sound net defaultOpts slacks b this

/-- out-of-service buses are never nodes of the energizing graph (they carry NaN results for a different reason) -/
theorem C07_oos_bus_not_node (net : Net) (b : Nat) (h : (b, false) ∈ net.buses) : b ∉ nodes net defaultOpts := by
  intro hn
  rw [C26_nodes_exact] at hn
  have : removed net defaultOpts b = true := by
    simp only [removed, defaultOpts, List.contains_nil, Bool.false_or, Bool.not_false, Bool.true_and, List.any_eq_true]
    exact ⟨(b, false), h, by simp⟩
  rw [this] at hn; exact absurd hn.2 (by simp)

/-! ## completeness of the fuel-bounded search -/

theorem mem_stepReach (es : List Adj) (cur : List Nat) (x : Nat) :
    x ∈ stepReach es cur ↔ x ∈ cur ∨ ∃ a ∈ es, a.u ∈ cur ∧ a.v = x := by
  simp only [stepReach, List.mem_eraseDups, List.mem_append, List.mem_map, List.mem_filter, List.contains_iff_mem]
  constructor
  · rintro (h | ⟨a, ⟨ha, hu⟩, rfl⟩)
    · exact Or.inl h
    · exact Or.inr ⟨a, ha, hu, rfl⟩
  · rintro (h | ⟨a, ha, hu, rfl⟩)
    · exact Or.inl h
    · exact Or.inr ⟨a, ⟨ha, hu⟩, rfl⟩

theorem reachN_succ (es : List Adj) (n : Nat) (cur : List Nat) :
    reachN es (n + 1) cur = stepReach es (reachN es n cur) := by
  induction n generalizing cur with
  | zero => rfl
  | succ n ih => rw [reachN, ih]; rfl

def Closed (es : List Adj) (s : List Nat) : Prop := ∀ a ∈ es, a.u ∈ s → a.v ∈ s

theorem closed_step (es : List Adj) (s : List Nat) (h : Closed es s) (x : Nat) : x ∈ stepReach es s ↔ x ∈ s := by
  rw [mem_stepReach]
  constructor
  · rintro (h1 | ⟨a, ha, hu, rfl⟩)
    · exact h1
    · exact h a ha hu
  · exact Or.inl

theorem closed_stepReach (es : List Adj) (s : List Nat) (h : Closed es s) : Closed es (stepReach es s) := by
  intro a ha hu
  rw [closed_step es s h] at hu ⊢
  exact h a ha hu

/-- either the search has reached a fixed point after `k` rounds or it has found at least `k` new buses -/
theorem grow (es : List Adj) (cur : List Nat) (k : Nat) :
    Closed es (reachN es k cur) ∨ cur.toFinset.card + k ≤ (reachN es k cur).toFinset.card := by
  induction k with
  | zero => right; simp [reachN]
  | succ k ih =>
    by_cases hc : Closed es (reachN es k cur)
    · left; rw [reachN_succ]; exact closed_stepReach es _ hc
    · right
      rcases ih with ih | ih
      · exact absurd ih hc
      · unfold Closed at hc
        push Not at hc
        obtain ⟨a, ha, hu, hv⟩ := hc
        rw [reachN_succ]
        have hsub : (reachN es k cur).toFinset ⊂ (stepReach es (reachN es k cur)).toFinset := by
          rw [Finset.ssubset_iff_of_subset]
          · exact ⟨a.v, by simp only [List.mem_toFinset, mem_stepReach]; exact Or.inr ⟨a, ha, hu, rfl⟩, by simpa using hv⟩
          · intro x hx
            simp only [List.mem_toFinset, mem_stepReach] at hx ⊢
            exact Or.inl hx
        have := Finset.card_lt_card hsub
        omega

theorem reachN_sub (es : List Adj) (ns : List Nat) (he : ∀ a ∈ es, a.v ∈ ns) (k : Nat) (cur : List Nat) (hc : ∀ x ∈ cur, x ∈ ns) :
    ∀ x ∈ reachN es k cur, x ∈ ns := by
  induction k generalizing cur with
  | zero => simpa [reachN] using hc
  | succ k ih =>
    rw [reachN]
    apply ih
    intro x hx
    rw [mem_stepReach] at hx
    rcases hx with hx | ⟨a, ha, _, rfl⟩
    · exact hc x hx
    · exact he a ha

theorem reachN_mono (es : List Adj) (k : Nat) (cur : List Nat) : ∀ x ∈ cur, x ∈ reachN es k cur := by
  induction k generalizing cur with
  | zero => simp [reachN]
  | succ k ih =>
    intro x hx
    rw [reachN]
    exact ih _ x ((mem_stepReach es cur x).2 (Or.inl hx))

/-- with as many rounds as there are nodes the search result is closed under the edges -/
theorem reachN_closed (es : List Adj) (ns : List Nat) (he : ∀ a ∈ es, a.v ∈ ns) (cur : List Nat) (hc : ∀ x ∈ cur, x ∈ ns) :
    Closed es (reachN es ns.length cur) := by
  rcases grow es cur ns.length with h | h
  · exact h
  · cases cur with
    | nil =>
      have : ∀ k, reachN es k [] = [] := by
        intro k; induction k with
        | zero => rfl
        | succ k ih => rw [reachN]; simpa [stepReach] using ih
      rw [this]; intro a _ hu; simp at hu
    | cons c cs =>
      exfalso
      have h1 : (reachN es ns.length (c :: cs)).toFinset ⊆ ns.toFinset := by
        intro x hx
        simp only [List.mem_toFinset] at hx ⊢
        exact reachN_sub es ns he _ _ hc x hx
      have h2 := Finset.card_le_card h1
      have h3 : ns.toFinset.card ≤ ns.length := List.toFinset_card_le ns
      have h4 : 0 < (c :: cs).toFinset.card := by
        apply Finset.card_pos.2
        exact ⟨c, by simp⟩
      omega

theorem rawAdj_symm (net : Net) (o : Opts) (a : Adj) (h : a ∈ rawAdj net o) : ⟨a.v, a.u, a.kind, a.idx, a.w⟩ ∈ rawAdj net o := by
  simp only [rawAdj, List.mem_append, List.mem_flatMap, mem_both, List.mem_filter] at h ⊢
  rcases h with (⟨b, hb, he⟩ | ⟨t, ht, p, hp, he⟩) | ⟨s, hs, he⟩
  · refine Or.inl (Or.inl ⟨b, hb, ?_⟩)
    rcases he with rfl | rfl <;> simp
  · refine Or.inl (Or.inr ⟨t, ht, p, hp, ?_⟩)
    rcases he with rfl | rfl <;> simp
  · refine Or.inr ⟨s, hs, ?_⟩
    rcases he with rfl | rfl <;> simp

theorem adj_target_node (net : Net) (o : Opts) (a : Adj) (h : a ∈ adj net o) : a.v ∈ nodes net o := by
  simp only [adj, List.mem_filter, Bool.and_eq_true, Bool.not_eq_true'] at h
  rw [C26_nodes_exact]
  refine ⟨Or.inr ?_, h.2.1.2⟩
  exact List.mem_map.2 ⟨_, rawAdj_symm net o a h.1, rfl⟩

/-- **completeness of the search**: every bus connected by a path of the graph to a root that is a node is found -/
theorem C07_reach_complete (net : Net) (o : Opts) (roots : List Nat) (r x : Nat) (hr : r ∈ roots) (hn : r ∈ nodes net o)
    (hp : Path net o r x) : x ∈ reach net o roots := by
  unfold reach
  have hcl := reachN_closed (adj net o) (nodes net o) (adj_target_node net o)
    (roots.filter (fun r => (nodes net o).contains r)) (by intro y hy; simpa using (List.mem_filter.1 hy).2)
  induction hp with
  | refl => exact reachN_mono _ _ _ _ (List.mem_filter.2 ⟨hr, by simpa using hn⟩)
  | tail _ hs ih =>
    obtain ⟨a, ha, rfl, rfl⟩ := hs
    exact hcl a ha ih



/-- soundness with the root as a node of the graph -/
theorem reach_sound_node (net : Net) (o : Opts) (roots : List Nat) (x : Nat) (h : x ∈ reach net o roots) :
    ∃ r ∈ roots, r ∈ nodes net o ∧ Path net o r x := by
  unfold reach at h
  obtain ⟨r, hr, hp⟩ := reachN_sound net o (roots.filter (fun r => (nodes net o).contains r)) _ _
    (fun y hy => ⟨y, hy, Path.refl y⟩) x h
  rw [List.mem_filter] at hr
  exact ⟨r, hr.1, by simpa using hr.2, hp⟩

/-- **exactly**: the reported set is the set of graph nodes without an energizing path from a slack bus that is itself a node -/
theorem C07_unsupplied_exact (net : Net) (o : Opts) (slacks : List Nat) (b : Nat) :
    b ∈ unsupplied net o slacks ↔ b ∈ nodes net o ∧ ¬ ∃ r ∈ slacks, r ∈ nodes net o ∧ Path net o r b := by
  have hc : ∀ l : List Nat, (l.contains b = false) ↔ b ∉ l := by intro l; simp
  simp only [unsupplied, List.mem_filter, Bool.not_eq_true', hc]
  constructor
  · rintro ⟨hb, hr⟩
    refine ⟨hb, ?_⟩
    rintro ⟨r, hr1, hr2, hp⟩
    exact hr (C07_reach_complete net o slacks r b hr1 hr2 hp)
  · rintro ⟨hb, hn⟩
    exact ⟨hb, fun h => hn (reach_sound_node net o slacks b h)⟩


/-- the statement of the property for the options `unsupplied_buses(net)` uses: an in-service bus of the graph is reported iff
    no in-service slack bus is connected to it through in-service branches and closed switches -/
theorem C07_unsupplied_default_exact (net : Net) (slacks : List Nat) (b : Nat) :
    b ∈ unsupplied net defaultOpts slacks ↔
      b ∈ nodes net defaultOpts ∧ ∀ r ∈ slacks, r ∈ nodes net defaultOpts → ¬ Path net defaultOpts r b := by
  rw [C07_unsupplied_exact]
  constructor
  · rintro ⟨hb, hn⟩; exact ⟨hb, fun r hr hrn hp => hn ⟨r, hr, hrn, hp⟩⟩
  · rintro ⟨hb, hn⟩; exact ⟨hb, fun ⟨r, hr, hrn, hp⟩ => hn r hr hrn hp⟩

/-- a slack bus that is in service supplies itself -/
theorem C07_slack_supplied (net : Net) (slacks : List Nat) (r : Nat) (hr : r ∈ slacks) (hn : r ∈ nodes net defaultOpts) :
    r ∉ unsupplied net defaultOpts slacks := by
  rw [C07_unsupplied_exact]
  rintro ⟨_, h⟩
  exact h ⟨r, hr, hn, Path.refl r⟩

/-- supply is inherited along every edge of the energizing graph -/
theorem C07_supply_propagates (net : Net) (slacks : List Nat) (a : Adj) (ha : a ∈ adj net defaultOpts)
    (hu : a.u ∈ nodes net defaultOpts) (hs : a.u ∉ unsupplied net defaultOpts slacks) : a.v ∉ unsupplied net defaultOpts slacks := by
  rw [C07_unsupplied_exact] at hs ⊢
  rintro ⟨_, h⟩
  have : ∃ r ∈ slacks, r ∈ nodes net defaultOpts ∧ Path net defaultOpts r a.u := by
    by_contra hc; exact hs ⟨hu, hc⟩
  obtain ⟨r, hr, hrn, hp⟩ := this
  exact h ⟨r, hr, hrn, Path.tail hp ⟨a, ha, rfl, rfl⟩⟩

/-- a path of the energizing graph only uses in-service, included, un-interrupted connections (C26_edges_exact), so
    a slack bus behind an open switch does not supply: witness -/
example :
    let net : Net := ⟨[(0, true), (1, true), (2, true)], [⟨Kind.line, 7, 0, 1, true, 3⟩, ⟨Kind.line, 8, 1, 2, true, 3⟩], [],
      [⟨0, 1, 8, SwT.l, false⟩]⟩
    unsupplied net defaultOpts [0] = [2] := by decide

end PPVerif.C07
