/-
  Property C07 — unsupplied parts are reported as unsupplied, everything else is solved.
  The energizing graph is the model of C26 (TopoDefs) with switches respected and every element table included; the
  power-flow side (ppc connectivity check with auxiliary buses) is tied to it by correspondence on every run.
-/
import PPVerif.Model.TopoDefs
import PPVerif.Props.C26

namespace PPVerif.C07
open PPVerif.Topo PPVerif.C26

/-- options with which `unsupplied_buses(net)` builds its graph -/
def defaultOpts : Opts := ⟨true, fun _ => true, false, [], [], none, none⟩

/-- a bus reported as unsupplied is an in-service bus of the graph that the search from the slack buses did not reach -/
theorem C07_unsupplied_sound (net : Net) (slacks : List Nat) (b : Nat) (h : b ∈ unsupplied net defaultOpts slacks) :
    b ∈ nodes net defaultOpts ∧ b ∉ reach net defaultOpts slacks := by
  simpa [unsupplied, List.mem_filter] using h

/-- every in-service bus NOT reported as unsupplied has an energizing path from an in-service slack bus -/
theorem C07_supplied_has_path (net : Net) (slacks : List Nat) (b : Nat) (hb : b ∈ nodes net defaultOpts)
    (h : b ∉ unsupplied net defaultOpts slacks) : ∃ r ∈ slacks, Path net defaultOpts r b := by
  have : b ∈ reach net defaultOpts slacks := by
    by_cases hr : b ∈ reach net defaultOpts slacks
    · exact hr
    · exact absurd (by simp [unsupplied, List.mem_filter, hb, hr]) h
  exact C26_reach_sound net defaultOpts slacks b this

/-- out-of-service buses are never nodes of the energizing graph (they carry NaN results for a different reason) -/
theorem C07_oos_bus_not_node (net : Net) (b : Nat) (h : (b, false) ∈ net.buses) : b ∉ nodes net defaultOpts := by
  intro hn
  rw [C26_nodes_exact] at hn
  have : removed net defaultOpts b = true := by
    simp only [removed, defaultOpts, List.contains_nil, Bool.false_or, Bool.not_false, Bool.true_and, List.any_eq_true]
    exact ⟨(b, false), h, by simp⟩
  rw [this] at hn; exact absurd hn.2 (by simp)

/-- a path of the energizing graph only uses in-service, included, un-interrupted connections (C26_edges_exact), so
    a slack bus behind an open switch does not supply: witness -/
example :
    let net : Net := ⟨[(0, true), (1, true), (2, true)], [⟨Kind.line, 7, 0, 1, true, 3⟩, ⟨Kind.line, 8, 1, 2, true, 3⟩], [],
      [⟨0, 1, 8, SwT.l, false⟩]⟩
    unsupplied net defaultOpts [0] = [2] := by decide

end PPVerif.C07
