/-
  Property C07 — unsupplied parts are reported as unsupplied, everything else is solved.
  The energizing graph is the model of C26 (TopoDefs) with switches respected and every element table included; the
  power-flow side (ppc connectivity check with auxiliary buses) is tied to it by correspondence on every run.
  The search is proved sound AND complete (fuel = number of nodes suffices: each round before the fixed point finds a new node),
  so `unsupplied` is exactly the set of nodes without an energizing path from a slack bus.
-/
import PPVerif.Model.TopoDefs
import PPVerif.Props.C26

namespace PPVerif.C07
open PPVerif.Topo PPVerif.C26

/-- options with which `unsupplied_buses(net)` builds its graph -/
def defaultOpts : Opts := ⟨true, fun _ => true, false, [], [], none, none⟩

/-- a bus reported as unsupplied is an in-service bus of the graph that the search from the slack buses did not reach -/
theorem C07_unsupplied_sound (net : Net) (slacks : List Nat) (b : Nat) (h : b ∈ unsupplied net defaultOpts slacks) :
    b ∈ nodes net defaultOpts ∧ b ∉ reach net defaultOpts slacks := by
  simpa [unsupplied, List.mem_filter] using h

/-- every in-service bus NOT reported as unsupplied has an energizing path from an in-service slack bus -/
theorem C07_supplied_has_path (net : Net) (slacks : List Nat) (b : Nat) (hb : b ∈ nodes net defaultOpts)
    (h : b ∉ unsupplied net defaultOpts slacks) : ∃ r ∈ slacks, Path net defaultOpts r b := by
  have : b ∈ reach net defaultOpts slacks := by
    by_cases hr : b ∈ reach net defaultOpts slacks
    · exact hr
    · exact absurd (by simp [unsupplied, List.mem_filter, hb, hr]) h
  exact C26_reach_sound net defaultOpts slacks b this

/-- out-of-service buses are never nodes of the energizing graph (they carry NaN results for a different reason) -/
theorem C07_oos_bus_not_node (net : Net) (b : Nat) (h : (b, false) ∈ net.buses) : b ∉ nodes net defaultOpts := by
  intro hn
  rw [C26_nodes_exact] at hn
  have : removed net defaultOpts b = true := by
    simp only [removed, defaultOpts, List.contains_nil, Bool.false_or, Bool.not_false, Bool.true_and, List.any_eq_true]
    exact ⟨(b, false), h, by simp⟩
  rw [this] at hn; exact absurd hn.2 (by simp)

/-- the statement of the property for the options `unsupplied_buses(net)` uses: an in-service bus of the graph is reported iff
    no in-service slack bus is connected to it through in-service branches and closed switches -/
theorem C07_unsupplied_exact (net : Net) (o : Opts) (slacks : List Nat) (b : Nat) :
    b ∈ unsupplied net o slacks ↔ b ∈ nodes net o ∧ ¬ ∃ r ∈ slacks, r ∈ nodes net o ∧ Path net o r b :=
  C26_unsupplied_exact net o slacks b

theorem C07_unsupplied_default_exact (net : Net) (slacks : List Nat) (b : Nat) :
    b ∈ unsupplied net defaultOpts slacks ↔
      b ∈ nodes net defaultOpts ∧ ∀ r ∈ slacks, r ∈ nodes net defaultOpts → ¬ Path net defaultOpts r b := by
  rw [C26_unsupplied_exact]
  constructor
  · rintro ⟨hb, hn⟩; exact ⟨hb, fun r hr hrn hp => hn ⟨r, hr, hrn, hp⟩⟩
  · rintro ⟨hb, hn⟩; exact ⟨hb, fun ⟨r, hr, hrn, hp⟩ => hn r hr hrn hp⟩

/-- a slack bus that is in service supplies itself -/
theorem C07_slack_supplied (net : Net) (slacks : List Nat) (r : Nat) (hr : r ∈ slacks) (hn : r ∈ nodes net defaultOpts) :
    r ∉ unsupplied net defaultOpts slacks := by
  rw [C26_unsupplied_exact]
  rintro ⟨_, h⟩
  exact h ⟨r, hr, hn, Path.refl r⟩

/-- supply is inherited along every edge of the energizing graph -/
theorem C07_supply_propagates (net : Net) (slacks : List Nat) (a : Adj) (ha : a ∈ adj net defaultOpts)
    (hu : a.u ∈ nodes net defaultOpts) (hs : a.u ∉ unsupplied net defaultOpts slacks) : a.v ∉ unsupplied net defaultOpts slacks := by
  rw [C26_unsupplied_exact] at hs ⊢
  rintro ⟨_, h⟩
  have : ∃ r ∈ slacks, r ∈ nodes net defaultOpts ∧ Path net defaultOpts r a.u := by
    by_contra hc; exact hs ⟨hu, hc⟩
  obtain ⟨r, hr, hrn, hp⟩ := this
  exact h ⟨r, hr, hrn, Path.tail hp ⟨a, ha, rfl, rfl⟩⟩

/-- a path of the energizing graph only uses in-service, included, un-interrupted connections (C26_edges_exact), so
    a slack bus behind an open switch does not supply: witness -/
example :
    let net : Net := ⟨[(0, true), (1, true), (2, true)], [⟨Kind.line, 7, 0, 1, true, 3⟩, ⟨Kind.line, 8, 1, 2, true, 3⟩], [],
      [⟨0, 1, 8, SwT.l, false⟩]⟩
    unsupplied net defaultOpts [0] = [2] := by decide

end PPVerif.C07
