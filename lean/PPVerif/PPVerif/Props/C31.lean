/-
  Property C31 — tabular tap dependency uses each transformer's own table row.
-/
import PPVerif.Model.TapTable
import PPVerif.Generated.C31

namespace PPVerif.C31
open PPVerif.TapTable

variable {V : Type}

/-- With the dict keyed by (id, step): for a characteristic table with unique (id, step) rows, every
    table-dependent transformer gets the value of the row matching its own characteristic id and tap position
    (or the default when the table has no such row) — for any table size and any set of transformers. -/
theorem C31_code_eq_spec (tab : List (Row V)) (hu : UniqueKeys tab) (trs : List Tr) (t : Tr) (ht : t ∈ trs)
    (d : V) : codeLookup .idStep tab trs t d = specLookup tab t d := by
  unfold codeLookup specLookup dictGet
  cases h : (merged tab trs).reverse.find? (fun r => keyEq .idStep r t) with
  | some r' =>
    have hmem : r' ∈ (merged tab trs).reverse := List.mem_of_find?_eq_some h
    have hp : keyEq .idStep r' t = true := by
      have := List.find?_some h
      simpa using this
    have hm' : r' ∈ merged tab trs := by simpa using hmem
    obtain ⟨hr', _⟩ := (mem_merged tab trs r').mp hm'
    have hp' : rowMatches r' t = true := hp
    rw [find_val_of_unique tab hu t r' hr' hp']
    simp
  | none =>
    have hnone : tab.find? (fun r => rowMatches r t) = none := by
      rw [List.find?_eq_none]
      intro r hr hm
      have hin : r ∈ merged tab trs := (mem_merged tab trs r).mpr ⟨hr, t, ht, by simpa using hm⟩
      have := List.find?_eq_none.mp h r (by simpa using hin)
      exact this (by simpa [keyEq, rowMatches] using hm)
    simp [hnone]

/-- … regardless of how many other transformers share the table or at which positions they are -/
theorem C31_independent_of_others (tab : List (Row V)) (hu : UniqueKeys tab) (trs : List Tr) (t : Tr)
    (ht : t ∈ trs) (d : V) :
    codeLookup .idStep tab trs t d = codeLookup .idStep tab [t] t d := by
  rw [C31_code_eq_spec tab hu trs t ht d, C31_code_eq_spec tab hu [t] t (by simp) d]

/-- the code as it is now keys both look-ups by (id, step), merges on (id, step), and writes into a copy -/
theorem C31_code_key_mode :
    PPVerif.Generated.C31.tapKeyMode = .idStep ∧ PPVerif.Generated.C31.vkKeyMode = .idStep ∧
    PPVerif.Generated.C31.tapMergeOn = ["id_characteristic", "step"] ∧
    PPVerif.Generated.C31.vkMergeOn = ["id_characteristic", "step"] ∧
    PPVerif.Generated.C31.vkWritesCopy = true := by decide

theorem C31_code_ratio_lookup (tab : List (Row V)) (hu : UniqueKeys tab) (trs : List Tr) (t : Tr) (ht : t ∈ trs)
    (d : V) : codeLookup PPVerif.Generated.C31.tapKeyMode tab trs t d = specLookup tab t d := by
  rw [C31_code_key_mode.1]; exact C31_code_eq_spec tab hu trs t ht d

theorem C31_code_vk_lookup (tab : List (Row V)) (hu : UniqueKeys tab) (trs : List Tr) (t : Tr) (ht : t ∈ trs)
    (d : V) : codeLookup PPVerif.Generated.C31.vkKeyMode tab trs t d = specLookup tab t d := by
  rw [C31_code_key_mode.2.1]; exact C31_code_eq_spec tab hu trs t ht d

/-! negation witness for the id-only key (the repaired defect, `fixed:` entry in KNOWN_FINDINGS) and non-vacuity -/

def tab0 : List (Row Int) := [⟨0, -5, 925⟩, ⟨0, 0, 1000⟩, ⟨0, 4, 1060⟩]

theorem C31_witness_shared_id :
    codeLookup .idOnly tab0 [⟨0, -5⟩, ⟨0, 4⟩] ⟨0, -5⟩ 1 = 1060 ∧ specLookup tab0 ⟨0, -5⟩ 1 = 925 ∧
    codeLookup .idStep tab0 [⟨0, -5⟩, ⟨0, 4⟩] ⟨0, -5⟩ 1 = 925 := by decide

example : UniqueKeys tab0 := by
  simp [UniqueKeys, tab0]

/-- a transformer whose (id, position) has no row silently gets the default — stated, because the property's
    "uses the row matching its own id and position" presupposes that the row exists -/
theorem C31_missing_row_default (tab : List (Row V)) (trs : List Tr) (t : Tr) (d : V)
    (h : ∀ r ∈ tab, rowMatches r t = false) : codeLookup .idStep tab trs t d = d := by
  unfold codeLookup dictGet
  have : (merged tab trs).reverse.find? (fun r => keyEq .idStep r t) = none := by
    rw [List.find?_eq_none]
    intro r hr
    have hr' : r ∈ merged tab trs := by simpa using hr
    have := h r ((mem_merged tab trs r).mp hr').1
    simpa [keyEq, rowMatches] using this
  simp [this]

end PPVerif.C31
