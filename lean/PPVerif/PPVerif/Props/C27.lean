/-
  Property C27 — group operations behave as set operations on group membership.
-/
import PPVerif.Model.GroupDefs
import PPVerif.Generated.C27

namespace PPVerif.C27
open PPVerif.Group

/-- at most one row per (group, element type) -/
def Uniq (st : St) : Prop := st.rows.Pairwise (fun a b => ¬ (a.gid = b.gid ∧ a.et = b.et))

/-- no empty rows -/
def NoEmpty (st : St) : Prop := ∀ r ∈ st.rows, r.members ≠ []

/-- index and reference-column values of an element table are unique -/
def TblInj (st : St) (et : Nat) : Prop := (st.tbl et).Pairwise (fun a b => a.idx ≠ b.idx ∧ a.col ≠ b.col)

theorem mem_membersOf (st : St) (gid et i : Nat) :
    i ∈ membersOf st gid et ↔ ∃ r ∈ st.rows, r.gid = gid ∧ r.et = et ∧ i ∈ resolve st.tbl r := by
  simp [membersOf, List.mem_flatMap, List.mem_filter, and_assoc]

theorem mem_diff (a b : List Nat) (x : Nat) : x ∈ diff a b ↔ x ∈ a ∧ x ∉ b := by
  simp [diff, List.mem_filter]

/-- what a list of indices / reference values denotes in table `et` -/
def denote (tbl : Nat → List Elem) (et : Nat) (byCol : Bool) (elems : List Nat) : List Nat :=
  resolve tbl ⟨0, et, elems, byCol⟩

theorem mem_resolve (tbl : Nat → List Elem) (r : Row) (i : Nat) :
    i ∈ resolve tbl r ↔ if r.byCol then ∃ e ∈ tbl r.et, e.idx = i ∧ e.col ∈ r.members else i ∈ r.members := by
  unfold resolve
  cases r.byCol <;> simp [List.mem_map, List.mem_filter]
  constructor
  · rintro ⟨e, ⟨he, hc⟩, rfl⟩; exact ⟨e, he, rfl, hc⟩
  · rintro ⟨e, he, rfl, hc⟩; exact ⟨e, ⟨he, hc⟩, rfl⟩

/-- **create / attach (new row)**: the new group–type pair gets exactly the given elements, everything else is unchanged -/
theorem C27_add_row (st : St) (gid et : Nat) (elems : List Nat) (byCol : Bool) (g e i : Nat) :
    i ∈ membersOf (addRow st gid et elems byCol) g e ↔
      i ∈ membersOf st g e ∨ (g = gid ∧ e = et ∧ i ∈ denote st.tbl et byCol elems) := by
  simp only [mem_membersOf, addRow, List.mem_append, List.mem_singleton]
  constructor
  · rintro ⟨r, (hr | rfl), h1, h2, h3⟩
    · exact Or.inl ⟨r, hr, h1, h2, h3⟩
    · exact Or.inr ⟨h1.symm, h2.symm, by simpa [denote, resolve] using h3⟩
  · rintro (⟨r, hr, h1, h2, h3⟩ | ⟨rfl, rfl, h3⟩)
    · exact ⟨r, Or.inl hr, h1, h2, h3⟩
    · exact ⟨⟨g, e, elems, byCol⟩, Or.inr rfl, rfl, rfl, by simpa [denote, resolve] using h3⟩

/-- **attach to an existing row**: members become old ∪ new (in the row's own link mode); other groups and other
    element types of the same group are unaffected -/
theorem C27_attach_existing (st : St) (gid et : Nat) (elems : List Nat) (g e i : Nat) :
    i ∈ membersOf (attachExisting st gid et elems) g e ↔
      i ∈ membersOf st g e ∨ (g = gid ∧ e = et ∧ ∃ r ∈ st.rows, r.gid = gid ∧ r.et = et ∧
        i ∈ denote st.tbl et r.byCol elems) := by
  simp only [mem_membersOf, attachExisting, List.mem_map]
  constructor
  · rintro ⟨r', ⟨r, hr, rfl⟩, h1, h2, h3⟩
    by_cases hm : (r.gid == gid && r.et == et) = true
    · simp only [hm, if_true] at h1 h2 h3
      have hge := (Bool.and_eq_true _ _).mp hm
      have hg : r.gid = gid := by simpa using hge.1
      have he : r.et = et := by simpa using hge.2
      rw [mem_resolve] at h3
      simp only at h3
      cases hb : r.byCol
      · simp only [hb, Bool.false_eq_true, if_false, List.mem_append, mem_diff] at h3
        rcases h3 with h3 | ⟨h3, _⟩
        · exact Or.inl ⟨r, hr, h1, h2, by rw [mem_resolve]; simp [hb, h3]⟩
        · exact Or.inr ⟨h1.symm.trans hg, h2.symm.trans he, r, hr, hg, he, by simp [denote, resolve, hb, h3]⟩
      · simp only [hb, if_true, List.mem_append, mem_diff] at h3
        obtain ⟨el, hel, hidx, hcol⟩ := h3
        rcases hcol with hcol | ⟨hcol, _⟩
        · exact Or.inl ⟨r, hr, h1, h2, by rw [mem_resolve]; simp only [hb, if_true]; exact ⟨el, hel, hidx, hcol⟩⟩
        · refine Or.inr ⟨h1.symm.trans hg, h2.symm.trans he, r, hr, hg, he, ?_⟩
          simp only [denote, resolve, hb, if_true, List.mem_map, List.mem_filter, List.contains_iff_mem]
          exact ⟨el, ⟨by simpa [he] using hel, by simpa using hcol⟩, hidx⟩
    · simp only [hm, Bool.false_eq_true, if_false] at h1 h2 h3
      exact Or.inl ⟨r, hr, h1, h2, h3⟩
  · rintro (⟨r, hr, h1, h2, h3⟩ | ⟨rfl, rfl, r, hr, hg, he, h3⟩)
    · refine ⟨_, ⟨r, hr, rfl⟩, ?_⟩
      by_cases hm : (r.gid == gid && r.et == et) = true
      · simp only [hm, if_true]
        refine ⟨h1, h2, ?_⟩
        rw [mem_resolve] at h3 ⊢
        cases hb : r.byCol
        · simp only [hb, Bool.false_eq_true, if_false] at h3 ⊢; exact List.mem_append_left _ h3
        · simp only [hb, if_true] at h3 ⊢
          obtain ⟨el, hel, hidx, hcol⟩ := h3
          exact ⟨el, hel, hidx, List.mem_append_left _ hcol⟩
      · simp only [hm, Bool.false_eq_true, if_false]; exact ⟨h1, h2, h3⟩
    · refine ⟨_, ⟨r, hr, rfl⟩, ?_⟩
      have hm : (r.gid == g && r.et == e) = true := by simp [hg, he]
      simp only [hm, if_true]
      refine ⟨hg, he, ?_⟩
      rw [mem_resolve]
      cases hb : r.byCol
      · simp only [hb, Bool.false_eq_true, if_false, List.mem_append, mem_diff]
        have : i ∈ elems := by simpa [denote, resolve, hb] using h3
        by_cases hin : i ∈ r.members
        · exact Or.inl hin
        · exact Or.inr ⟨this, hin⟩
      · simp only [hb, if_true, List.mem_append, mem_diff]
        simp only [denote, resolve, hb, if_true, List.mem_map, List.mem_filter, List.contains_iff_mem] at h3
        obtain ⟨el, ⟨hel, hcol⟩, hidx⟩ := h3
        refine ⟨el, by simpa [he] using hel, hidx, ?_⟩
        by_cases hin : el.col ∈ r.members
        · exact Or.inl hin
        · exact Or.inr ⟨by simpa using hcol, hin⟩

/-- **drop_group**: that group has no members any more, all other groups keep theirs -/
theorem C27_drop_group (st : St) (gid g e i : Nat) :
    i ∈ membersOf (dropGroup st gid) g e ↔ i ∈ membersOf st g e ∧ g ≠ gid := by
  simp only [mem_membersOf, dropGroup, List.mem_filter]
  constructor
  · rintro ⟨r, ⟨hr, hne⟩, h1, h2, h3⟩
    exact ⟨⟨r, hr, h1, h2, h3⟩, by rw [← h1]; simpa using hne⟩
  · rintro ⟨⟨r, hr, h1, h2, h3⟩, hne⟩
    exact ⟨r, ⟨hr, by simpa [h1] using hne⟩, h1, h2, h3⟩

/-- invariants are preserved: no empty row survives a detach -/
theorem C27_detach_no_empty (st : St) (et : Nat) (elems : List Nat) (inT : Nat → Bool) :
    NoEmpty (detach st et elems inT) := by
  intro r hr
  simp only [detach, List.mem_filter] at hr
  simpa using hr.2

theorem upd_keeps_key (st : St) (et : Nat) (elems : List Nat) (inT : Nat → Bool) (r : Row) :
    (if (r.et == et && inT r.gid) = true then ({ r with members := diff r.members (keysOf st.tbl r elems) } : Row) else r).gid = r.gid ∧
    (if (r.et == et && inT r.gid) = true then ({ r with members := diff r.members (keysOf st.tbl r elems) } : Row) else r).et = r.et := by
  split <;> exact ⟨rfl, rfl⟩

theorem C27_detach_uniq (st : St) (et : Nat) (elems : List Nat) (inT : Nat → Bool) (h : Uniq st) :
    Uniq (detach st et elems inT) := by
  unfold Uniq detach at *
  apply List.Pairwise.filter
  rw [List.pairwise_map]
  apply h.imp
  intro a b hab
  rintro ⟨h1, h2⟩
  have ka := upd_keeps_key st et elems inT a
  have kb := upd_keeps_key st et elems inT b
  exact hab ⟨by rw [← ka.1, ← kb.1]; exact h1, by rw [← ka.2, ← kb.2]; exact h2⟩

/-- **detach (index-linked rows)**: members become old \ elems in the targeted groups for that element type,
    nothing else changes -/
theorem C27_detach_index (st : St) (et : Nat) (elems : List Nat) (inT : Nat → Bool) (g e i : Nat)
    (hidx : ∀ r ∈ st.rows, r.byCol = false) :
    i ∈ membersOf (detach st et elems inT) g e ↔
      i ∈ membersOf st g e ∧ ¬ (e = et ∧ inT g = true ∧ i ∈ elems) := by
  simp only [mem_membersOf, detach, List.mem_filter, List.mem_map]
  constructor
  · rintro ⟨r', ⟨⟨r, hr, rfl⟩, _⟩, h1, h2, h3⟩
    have hb := hidx r hr
    by_cases hm : (r.et == et && inT r.gid) = true
    · simp only [hm, if_true] at h1 h2 h3
      rw [mem_resolve] at h3
      simp only [hb, Bool.false_eq_true, if_false, mem_diff, keysOf] at h3
      refine ⟨⟨r, hr, h1, h2, by rw [mem_resolve]; simp [hb, h3.1]⟩, ?_⟩
      rintro ⟨_, _, hin⟩; exact h3.2 hin
    · simp only [hm, Bool.false_eq_true, if_false] at h1 h2 h3
      refine ⟨⟨r, hr, h1, h2, h3⟩, ?_⟩
      rintro ⟨he, ht, _⟩
      apply hm
      subst h1 h2
      simp [he, ht]
  · rintro ⟨⟨r, hr, h1, h2, h3⟩, hn⟩
    have hb := hidx r hr
    rw [mem_resolve] at h3
    simp only [hb, Bool.false_eq_true, if_false] at h3
    by_cases hm : (r.et == et && inT r.gid) = true
    · have hge := (Bool.and_eq_true _ _).mp hm
      have hni : i ∉ elems := by
        intro hin; apply hn
        subst h1 h2
        exact ⟨by simpa using hge.1, hge.2, hin⟩
      have hd : i ∈ diff r.members elems := (mem_diff _ _ _).mpr ⟨h3, hni⟩
      refine ⟨{ r with members := diff r.members (keysOf st.tbl r elems) }, ⟨⟨r, hr, by simp [hm]⟩, ?_⟩, h1, h2, ?_⟩
      · simp only [keysOf, hb, Bool.false_eq_true, if_false]
        cases hdd : diff r.members elems with
        | nil => rw [hdd] at hd; cases hd
        | cons _ _ => simp
      · rw [mem_resolve]; simp only [hb, Bool.false_eq_true, if_false, keysOf]; exact hd
    · refine ⟨r, ⟨⟨r, hr, by simp [hm]⟩, ?_⟩, h1, h2, by rw [mem_resolve]; simp [hb, h3]⟩
      cases hdd : r.members with
      | nil => rw [hdd] at h3; cases h3
      | cons _ _ => simp

theorem pairwise_col_inj (l : List Elem) (h : l.Pairwise (fun a b => a.idx ≠ b.idx ∧ a.col ≠ b.col)) :
    ∀ a ∈ l, ∀ b ∈ l, a ≠ b → a.col ≠ b.col := by
  induction l with
  | nil => intro a ha; cases ha
  | cons x xs ih =>
    rw [List.pairwise_cons] at h
    intro a ha b hb hab
    rcases List.mem_cons.mp ha with rfl | ha' <;> rcases List.mem_cons.mp hb with rfl | hb'
    · exact absurd rfl hab
    · exact (h.1 b hb').2
    · exact (h.1 a ha').2.symm
    · exact ih h.2 a ha' b hb' hab

/-- **detach (reference-column rows)**: with unique index and column values in the element table, detaching elements
    removes exactly those elements from the membership (the row stores their keys) -/
theorem C27_detach_by_col (st : St) (et : Nat) (elems : List Nat) (inT : Nat → Bool) (g i : Nat)
    (hinj : TblInj st et) (hcol : ∀ r ∈ st.rows, r.et = et → r.byCol = true) :
    i ∈ membersOf (detach st et elems inT) g et ↔
      i ∈ membersOf st g et ∧ ¬ (inT g = true ∧ i ∈ elems) := by
  simp only [mem_membersOf, detach, List.mem_filter, List.mem_map]
  -- key of an element is removed iff the element itself is detached (injectivity)
  have keyiff : ∀ (el : Elem), el ∈ st.tbl et → ∀ r : Row, r.et = et → r.byCol = true →
      (el.col ∈ keysOf st.tbl r elems ↔ el.idx ∈ elems) := by
    intro el hel r hre hrb
    simp only [keysOf, hrb, if_true, hre, List.mem_map, List.mem_filter, List.contains_iff_mem]
    constructor
    · rintro ⟨el', ⟨hel', hin⟩, hc⟩
      by_cases hsame : el' = el
      · rw [← hsame]; simpa using hin
      · exfalso
        have hne := pairwise_col_inj (st.tbl et) hinj
        exact hne el' hel' el hel hsame hc
    · intro hin
      exact ⟨el, ⟨hel, by simpa using hin⟩, rfl⟩
  constructor
  · rintro ⟨r', ⟨⟨r, hr, rfl⟩, _⟩, h1, h2, h3⟩
    by_cases hm : (r.et == et && inT r.gid) = true
    · simp only [hm, if_true] at h1 h2 h3
      have hb := hcol r hr h2
      rw [mem_resolve] at h3
      simp only [hb, if_true, mem_diff] at h3
      obtain ⟨el, hel, hidx, hmem, hnk⟩ := h3
      rw [h2] at hel
      refine ⟨⟨r, hr, h1, h2, by rw [mem_resolve]; simp only [hb, if_true]; exact ⟨el, by rw [h2]; exact hel, hidx, hmem⟩⟩, ?_⟩
      rintro ⟨_, hin⟩
      exact hnk ((keyiff el hel r h2 hb).mpr (by rw [hidx]; exact hin))
    · simp only [hm, Bool.false_eq_true, if_false] at h1 h2 h3
      refine ⟨⟨r, hr, h1, h2, h3⟩, ?_⟩
      rintro ⟨ht, _⟩
      apply hm
      subst h1
      simp [h2, ht]
  · rintro ⟨⟨r, hr, h1, h2, h3⟩, hn⟩
    have hb := hcol r hr h2
    rw [mem_resolve] at h3
    simp only [hb, if_true] at h3
    obtain ⟨el, hel, hidx, hmem⟩ := h3
    rw [h2] at hel
    by_cases hm : (r.et == et && inT r.gid) = true
    · have hge := (Bool.and_eq_true _ _).mp hm
      have hni : el.idx ∉ elems := by
        intro hin; apply hn
        subst h1
        exact ⟨hge.2, by rw [← hidx]; exact hin⟩
      have hk : el.col ∉ keysOf st.tbl r elems := fun hk => hni ((keyiff el hel r h2 hb).mp hk)
      have hd : el.col ∈ diff r.members (keysOf st.tbl r elems) := (mem_diff _ _ _).mpr ⟨hmem, hk⟩
      refine ⟨{ r with members := diff r.members (keysOf st.tbl r elems) }, ⟨⟨r, hr, by simp [hm]⟩, ?_⟩, h1, h2, ?_⟩
      · cases hdd : diff r.members (keysOf st.tbl r elems) with
        | nil => rw [hdd] at hd; cases hd
        | cons _ _ => simp
      · rw [mem_resolve]; simp only [hb, if_true]; exact ⟨el, by rw [h2]; exact hel, hidx, hd⟩
    · refine ⟨r, ⟨⟨r, hr, by simp [hm]⟩, ?_⟩, h1, h2, by rw [mem_resolve]; simp only [hb, if_true]; exact ⟨el, by rw [h2]; exact hel, hidx, hmem⟩⟩
      cases hdd : r.members with
      | nil => rw [hdd] at hmem; cases hmem
      | cons _ _ => simp

/-- **set_group_in/out_of_service** changes the flag of exactly the members and of nothing else -/
theorem C27_set_service_exact (st : St) (gid : Nat) (v : Bool) (t : Nat) (el : Elem) (hel : el ∈ st.tbl t) :
    ∃ el' ∈ (setService st gid v).tbl t, el'.idx = el.idx ∧ el'.col = el.col ∧
      el'.inService = (if el.idx ∈ membersOf st gid t then v else el.inService) := by
  refine ⟨if (membersOf st gid t).contains el.idx then { el with inService := v } else el, ?_, ?_⟩
  · simp only [setService, List.mem_map]; exact ⟨el, hel, rfl⟩
  · by_cases h : el.idx ∈ membersOf st gid t <;> simp [h]

/-- the code as it is: group clean-up precedes the row removal in the toolbox drop functions, and attach builds a
    fresh member list (no in-place extension of a possibly shared list object) -/
theorem C27_code_facts :
    PPVerif.Generated.C27.detachBeforeDrop = [("drop_elements_simple", true), ("drop_buses", true), ("drop_lines", true),
      ("drop_trafos", true)] ∧ PPVerif.Generated.C27.attachFreshList = true := by decide

/-- witness for the order: with the rows dropped first, a reference-column group keeps the dropped element's key
    (its value can no longer be looked up), and a later element re-using the value silently becomes a member -/
theorem C27_witness_drop_order :
    let st : St := ⟨[⟨0, 5, [77], true⟩], fun t => if t = 5 then [⟨3, 77, true⟩] else []⟩
    (dropElems false st 5 [3]).rows = [⟨0, 5, [77], true⟩] ∧ (dropElems true st 5 [3]).rows = [] := by decide

end PPVerif.C27
