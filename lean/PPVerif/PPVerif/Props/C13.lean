/-
  Property C13 — the controller loop terminates with converged controllers and fresh results.
-/
import PPVerif.Model.CtrlDefs
import PPVerif.Generated.C13
import Mathlib.Order.Defs.LinearOrder
import Mathlib.Order.Basic

namespace PPVerif.C13
open PPVerif.Ctrl PPVerif.Generated.C13

/-! ### controller order -/

/-- levels run in ascending order, each once -/
theorem C13_levels_ascending (rows : List Row) : (levelList rows).Pairwise (fun a b => a ≤ b) := by
  have := List.pairwise_mergeSort (le := fun a b : Nat => decide (a ≤ b))
    (by intro a b c; simp; omega) (by intro a b; simp; omega) ((rows.flatMap (·.levels)).eraseDups)
  simpa [levelList] using this

theorem C13_levels_exact (rows : List Row) (l : Nat) : l ∈ levelList rows ↔ ∃ r ∈ rows, l ∈ r.levels := by
  simp [levelList, (List.mergeSort_perm _ _).mem_iff, List.mem_eraseDups, List.mem_flatMap]

/-- within a level: exactly the in-service controllers that list the level, by ascending order -/
theorem C13_level_members (rows : List Row) (l : Nat) (r : Row) :
    r ∈ levelOrder rows l ↔ r ∈ rows ∧ r.inService = true ∧ l ∈ r.levels := by
  simp [levelOrder, (List.mergeSort_perm _ _).mem_iff, List.mem_filter, and_assoc]

theorem C13_level_sorted (rows : List Row) (l : Nat) :
    (levelOrder rows l).Pairwise (fun a b => a.order ≤ b.order) := by
  have := List.pairwise_mergeSort (le := fun a b : Row => decide (a.order ≤ b.order))
    (by intro a b c; simp; omega) (by intro a b; simp; omega) (rows.filter (fun r => r.inService && r.levels.contains l))
  simpa [levelOrder] using this

/-! ### the loop, over arbitrary controllers and an arbitrary evaluation function -/

variable {S : Type}

/-- a sweep that reports "all converged" did not touch the state, and every controller is converged on it -/
theorem sweep_true (cs : List (C S)) (s : S) (h : (sweep cs s).2 = true) :
    (sweep cs s).1 = s ∧ ∀ c ∈ cs, c.conv s = true := by
  induction cs generalizing s with
  | nil => simp [sweep]
  | cons c cs ih =>
    by_cases hc : c.conv s = true
    · simp only [sweep, hc, if_true] at h ⊢
      obtain ⟨h1, h2⟩ := ih s h
      exact ⟨h1, by intro c' hc'; rcases List.mem_cons.mp hc' with rfl | hm; exact hc; exact h2 c' hm⟩
    · simp [sweep, hc] at h

/-- **one level**: if the level loop returns, every controller of the level reports convergence on the returned state,
    and the returned state is either the untouched start state (nobody had to act) or the direct output of the
    evaluation function (no controller acted after the last power flow) -/
theorem C13_level_post (pf : S → S) (cs : List (C S)) (fuel : Nat) (s s' : S) (h : levelRun pf cs fuel s = some s') :
    (∀ c ∈ cs, c.conv s' = true) ∧ (s' = s ∨ ∃ t, s' = pf t) := by
  induction fuel generalizing s with
  | zero => simp [levelRun] at h
  | succ n ih =>
    simp only [levelRun] at h
    by_cases hc : (sweep cs s).2 = true
    · simp only [hc, if_true, Option.some.injEq] at h
      obtain ⟨h1, h2⟩ := sweep_true cs s hc
      rw [← h, h1]; exact ⟨h2, Or.inl rfl⟩
    · simp only [hc, Bool.false_eq_true, if_false] at h
      obtain ⟨h1, h2⟩ := ih (pf (sweep cs s).1) h
      refine ⟨h1, Or.inr ?_⟩
      rcases h2 with h2 | ⟨t, ht⟩
      · exact ⟨_, h2⟩
      · exact ⟨t, ht⟩

/-- the loop gives up after max_iter + 1 sweeps: with no fuel left the result is the not-converged error -/
theorem C13_iteration_cap (pf : S → S) (cs : List (C S)) (s : S) : levelRun pf cs 0 s = none := rfl

/-- **all levels**: on return the controllers of the LAST level are converged on the returned state -/
theorem C13_last_level_post (pf : S → S) (maxIter : Nat) (lv : List (List (C S))) (last : List (C S)) (s s' : S)
    (h : runLevels pf maxIter (lv ++ [last]) s = some s') : ∀ c ∈ last, c.conv s' = true := by
  induction lv generalizing s with
  | nil =>
    simp only [List.nil_append, runLevels] at h
    cases hl : levelRun pf last (maxIter + 1) s with
    | none => simp [hl] at h
    | some t =>
      simp only [hl, runLevels, Option.some.injEq] at h
      subst h
      exact (C13_level_post pf last _ s t hl).1
  | cons x xs ih =>
    simp only [List.cons_append, runLevels] at h
    cases hl : levelRun pf x (maxIter + 1) s with
    | none => simp [hl] at h
    | some t => simp only [hl] at h; exact ih t h

/-- with a single level the full statement holds: every controller converged, results fresh -/
theorem C13_single_level (pf : S → S) (maxIter : Nat) (cs : List (C S)) (s s' : S)
    (h : runLevels pf maxIter [cs] s = some s') : (∀ c ∈ cs, c.conv s' = true) ∧ (s' = s ∨ ∃ t, s' = pf t) := by
  simp only [runLevels] at h
  cases hl : levelRun pf cs (maxIter + 1) s with
  | none => simp [hl] at h
  | some t =>
    simp only [hl, Option.some.injEq] at h
    subst h
    exact C13_level_post pf cs _ s t hl

/-- recorded finding (multi-level): controllers of an earlier level are not re-checked after a later level acted.
    State = a number; level 1 wants it even, level 2 sets it to 3 once. -/
theorem C13_witness_earlier_level_not_rechecked :
    let c1 : C Nat := ⟨fun n => n % 2 == 0, fun n => n + 1⟩
    let c2 : C Nat := ⟨fun n => n == 3, fun _ => 3⟩
    runLevels (fun n => n) 5 [[c1], [c2]] 0 = some 3 ∧ c1.conv 3 = false := by decide

/-! ### tap controllers (expressions regenerated from the source) -/

variable {K : Type} [LinearOrder K]

/-- a discrete tap step never leaves [tap_min, tap_max] — both tap sides, both signs, any voltage (NaN included) -/
theorem C13_tap_bounds (dir : Bool) (vm lo hi : Option K) (tap tmin tmax : Int) (h1 : tmin ≤ tap) (h2 : tap ≤ tmax) :
    tmin ≤ tap + increment dir vm lo hi tap tmin tmax ∧ tap + increment dir vm lo hi tap tmin tmax ≤ tmax := by
  unfold increment
  cases dir <;> simp only [Bool.false_eq_true, if_false, if_true] <;>
  · split
    · rename_i h; simp only [Bool.and_eq_true, decide_eq_true_eq] at h; omega
    · split
      · rename_i h; simp only [Bool.and_eq_true, decide_eq_true_eq] at h; omega
      · omega

/-- a discrete step moves by at most one position -/
theorem C13_single_step (dir : Bool) (vm lo hi : Option K) (tap tmin tmax : Int) :
    increment dir vm lo hi tap tmin tmax = -1 ∨ increment dir vm lo hi tap tmin tmax = 0 ∨
    increment dir vm lo hi tap tmin tmax = 1 := by
  unfold increment
  cases dir <;> simp only [Bool.false_eq_true, if_false, if_true] <;> (split <;> [simp; (split <;> simp)])

/-- on convergence: the bus voltage is NaN (transformer switched off by the connectivity check), or strictly inside the
    band, or outside the band with the tap at the limit in the direction that would be needed -/
theorem C13_discrete_post (dir : Bool) (vm lo hi : Option K) (tap tmin tmax : Int)
    (h : discreteConverged dir vm lo hi tap tmin tmax = true) :
    vm = none ∨ (ltN lo vm = true ∧ ltN vm hi = true) ∨
    (ltN vm lo = true ∧ tap = (if dir then tmin else tmax)) ∨ (ltN hi vm = true ∧ tap = (if dir then tmax else tmin)) := by
  unfold discreteConverged discreteLimit at h
  cases vm with
  | none => exact Or.inl rfl
  | some v =>
    right
    cases dir <;> simp only [Bool.false_eq_true, if_false, if_true, Option.isNone_some, Bool.or_false, Bool.or_eq_true,
      Bool.and_eq_true, decide_eq_true_eq] at h ⊢
    · rcases h with (⟨h1, h2⟩ | ⟨h1, h2⟩) | h
      · exact Or.inr (Or.inl ⟨h1, h2⟩)
      · exact Or.inr (Or.inr ⟨h1, h2⟩)
      · exact Or.inl h
    · rcases h with (⟨h1, h2⟩ | ⟨h1, h2⟩) | h
      · exact Or.inr (Or.inl ⟨h1, h2⟩)
      · exact Or.inr (Or.inr ⟨h1, h2⟩)
      · exact Or.inl h

/-- while not converged with a finite voltage strictly outside the band, the controller really moves the tap -/
theorem C13_discrete_progress (dir : Bool) (v l u : K) (tap tmin tmax : Int) (h1 : tmin ≤ tap) (h2 : tap ≤ tmax)
    (hout : v < l ∨ u < v) (hlu : l ≤ u)
    (hn : discreteConverged dir (some v) (some l) (some u) tap tmin tmax = false) :
    increment dir (some v) (some l) (some u) tap tmin tmax ≠ 0 := by
  unfold discreteConverged discreteLimit at hn
  unfold increment
  simp only [ltN, Option.isNone_some, Bool.or_false, Bool.or_eq_false_iff, Bool.and_eq_false_iff,
    decide_eq_false_iff_not] at hn
  obtain ⟨hlim, _⟩ := hn
  cases dir <;> simp only [Bool.false_eq_true, if_false, if_true, Bool.or_eq_false_iff, Bool.and_eq_false_iff,
    decide_eq_false_iff_not, ltN] at hlim ⊢
  · obtain ⟨ha, hb⟩ := hlim
    rcases hout with hv | hv
    · have : tap ≠ tmax := by rcases ha with ha | ha; exact absurd hv ha; exact ha
      have : tap < tmax := by omega
      simp [hv, this]
    · have hnl : ¬ v < l := not_lt.mpr (le_trans hlu (le_of_lt hv))
      have : tap ≠ tmin := by rcases hb with hb | hb; exact absurd hv hb; exact hb
      have : tmin < tap := by omega
      simp [hnl, hv, this]
  · obtain ⟨ha, hb⟩ := hlim
    rcases hout with hv | hv
    · have : tap ≠ tmin := by rcases ha with ha | ha; exact absurd hv ha; exact ha
      have : tmin < tap := by omega
      simp [hv, this]
    · have hnl : ¬ v < l := not_lt.mpr (le_trans hlu (le_of_lt hv))
      have : tap ≠ tmax := by rcases hb with hb | hb; exact absurd hv hb; exact hb
      have : tap < tmax := by omega
      simp [hnl, hv, this]

/-- the shapes the model relies on are the shapes in the source -/
theorem C13_code_shape : orderShape = true ∧ loopShape = true ∧ sweepShape = true ∧ finalCheckShape = true ∧
    continuousStepClips = true := by decide

end PPVerif.C13
