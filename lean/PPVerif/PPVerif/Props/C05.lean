/-
  Property C05 — results are invariant under equivalent re-representations of the same physical network.
  Each theorem: the mismatch function (hence the solution set) and the result quantities of the re-represented network
  correspond to those of the original one, for every voltage vector.
-/
import PPVerif.Model.PFDefs
import PPVerif.Props.C01
import Mathlib.Tactic.Ring
import Mathlib.Tactic.FieldSimp

namespace PPVerif.C05
open PPVerif.PF

section ring
variable {R : Type} [CommRing R] [StarRing R]

def scaleBr (k : R) (b : Branch R) : Branch R := ⟨b.f, b.t, k * b.yff, k * b.yft, k * b.ytf, k * b.ytt⟩

theorem iBus_scale (k : R) (brs : List (Branch R)) (ysh : Nat → R) (V : Nat → R) (i : Nat) :
    iBus (brs.map (scaleBr k)) (fun j => k * ysh j) V i = k * iBus brs ysh V i := by
  unfold iBus
  rw [mul_add, List.map_map]
  congr 1
  · induction brs with
    | nil => simp
    | cons b bs ih =>
      simp only [List.map_cons, List.sum_cons, ih, Function.comp, mul_add]
      congr 1
      by_cases h1 : b.f = i <;> by_cases h2 : b.t = i <;> simp [h1, h2, scaleBr, iFrom, iTo] <;> ring
  · ring

/-- **base power**: changing net.sn_mva from sn to sn' multiplies every per-unit admittance and every per-unit
    injection by k = sn/sn' (k real); the mismatch is multiplied by k for every V, so the solutions are the same
    voltages, and the powers in MW (per unit × base) are unchanged -/
theorem C05_snmva (k : R) (hk : star k = k) (brs : List (Branch R)) (ysh sBus : Nat → R) (V : Nat → R) (i : Nat) :
    mismatch (brs.map (scaleBr k)) (fun j => k * ysh j) (fun j => k * sBus j) V i = k * mismatch brs ysh sBus V i := by
  unfold mismatch sCalc
  rw [iBus_scale, star_mul, hk]; ring

theorem C05_snmva_flows (k : R) (hk : star k = k) (b : Branch R) (V : Nat → R) :
    sFrom (scaleBr k b) V = k * sFrom b V ∧ sTo (scaleBr k b) V = k * sTo b V := by
  constructor <;> simp only [sFrom, sTo, iFrom, iTo, scaleBr, star_add, star_mul, hk] <;> ring

/-- **row order**: permuting the rows of the branch table does not change any bus injection (hence no mismatch) -/
theorem C05_row_perm (brs brs' : List (Branch R)) (hp : brs.Perm brs') (ysh : Nat → R) (V : Nat → R) (i : Nat) :
    iBus brs ysh V i = iBus brs' ysh V i := by
  unfold iBus
  rw [(hp.map _).sum_eq]

/-- **inert elements**: an element with zero admittances (out of service / zero length) adds nothing anywhere -/
theorem C05_add_inert (brs : List (Branch R)) (f t : Nat) (ysh : Nat → R) (V : Nat → R) (i : Nat) :
    iBus (⟨f, t, 0, 0, 0, 0⟩ :: brs) ysh V i = iBus brs ysh V i := by
  unfold iBus
  simp [iFrom, iTo]

/-- **parallel**: one branch with n-fold admittances (parallel = n) injects the same currents as n identical branches -/
theorem C05_parallel (n : Nat) (b : Branch R) (brs : List (Branch R)) (ysh : Nat → R) (V : Nat → R) (i : Nat) :
    iBus (scaleBr (n : R) b :: brs) ysh V i = iBus (List.replicate n b ++ brs) ysh V i := by
  unfold iBus
  simp only [List.map_cons, List.sum_cons, List.map_append, List.sum_append, List.map_replicate, List.sum_replicate, nsmul_eq_mul]
  congr 1
  congr 1
  by_cases h1 : b.f = i <;> by_cases h2 : b.t = i <;> simp [h1, h2, scaleBr, iFrom, iTo] <;> ring

/-- **orientation**: swapping from and to of a branch (with its entries transposed) leaves every bus injection
    unchanged and swaps the reported terminal powers -/
def swapBr (b : Branch R) : Branch R := ⟨b.t, b.f, b.ytt, b.ytf, b.yft, b.yff⟩

theorem C05_swap (b : Branch R) (brs : List (Branch R)) (ysh : Nat → R) (V : Nat → R) (i : Nat) :
    iBus (swapBr b :: brs) ysh V i = iBus (b :: brs) ysh V i ∧ sFrom (swapBr b) V = sTo b V ∧ sTo (swapBr b) V = sFrom b V := by
  refine ⟨?_, ?_, ?_⟩
  · unfold iBus
    simp only [List.map_cons, List.sum_cons]
    congr 1
    congr 1
    by_cases h1 : b.f = i <;> by_cases h2 : b.t = i <;> simp [h1, h2, swapBr, iFrom, iTo] <;> ring
  · simp only [sFrom, sTo, iFrom, iTo, swapBr]; ring_nf
  · simp only [sFrom, sTo, iFrom, iTo, swapBr]; ring_nf

/-- **relabelling**: renaming the nodes by an injective map σ (bus re-indexing) transports every bus injection -/
def relabelBr (σ : Nat → Nat) (b : Branch R) : Branch R := ⟨σ b.f, σ b.t, b.yff, b.yft, b.ytf, b.ytt⟩

theorem C05_relabel (σ : Nat → Nat) (hσ : Function.Injective σ) (brs : List (Branch R)) (ysh ysh' : Nat → R)
    (V V' : Nat → R) (hV : ∀ j, V' (σ j) = V j) (hy : ∀ j, ysh' (σ j) = ysh j) (i : Nat) :
    iBus (brs.map (relabelBr σ)) ysh' V' (σ i) = iBus brs ysh V i := by
  unfold iBus
  rw [hy, hV, List.map_map]
  congr 1
  induction brs with
  | nil => simp
  | cons b bs ih =>
    simp only [List.map_cons, List.sum_cons, ih, Function.comp]
    congr 1
    have e1 : (σ b.f = σ i) ↔ (b.f = i) := hσ.eq_iff
    have e2 : (σ b.t = σ i) ↔ (b.t = i) := hσ.eq_iff
    simp only [relabelBr, iFrom, iTo, hV, e1, e2]

end ring

section field
variable {K : Type} [Field K]

/-- **splitting a load**: k loads with the same ZIP fractions whose powers add up to p behave as one load p -/
theorem C05_split_load (ps : List K) (ci cz other vm : K) :
    busLoadSpec (ps.map fun p => ⟨p, ci, cz⟩) other vm = busLoadSpec [⟨ps.sum, ci, cz⟩] other vm := by
  unfold busLoadSpec
  congr 1
  induction ps with
  | nil => simp [zipElem]
  | cons p ps ih =>
    simp only [List.map_cons, List.sum_cons, List.map_map] at ih ⊢
    rw [ih]
    simp only [List.map_nil, List.sum_nil, add_zero, zipElem]
    ring

end field

end PPVerif.C05
