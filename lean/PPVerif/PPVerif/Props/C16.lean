/-
  C16 — OPF results are feasible operating points.
  Over the limit formulas generated from build_gen.py (user limits umin ≤ p ≤ umax, tolerance delta ≥ 0):
    * an element entering as generation: the solver's variable x = p within the ppc limits is within the user's limits up to
      delta, and every user-feasible value is ppc-feasible;
    * a load / storage entering with inverted sign: the solver's variable x = −p within the ppc limits means p within the
      user's limits up to delta, and conversely — the sign inversion swaps and negates the limits correctly;
    * a non-controllable generator's window [p − delta, p + delta] pins its set point up to delta;
  and the dcline bookkeeping is consistent: generator pairs are created and located over all dclines, constraint rows and
  right-hand sides are counted over the in-service ones.
-/
import PPVerif.Generated.C16
import Mathlib.Tactic.Linarith

namespace PPVerif.Props.C16
open PPVerif.Generated.C16

variable {K : Type} [Field K] [LinearOrder K] [IsStrictOrderedRing K]

/-- generation sign: ppc-feasible ⇒ user-feasible up to delta; user-feasible ⇒ ppc-feasible -/
theorem C16_gen_limits (umin umax d x : K) (hd : 0 ≤ d) :
    (genPMin umin umax d ≤ x ∧ x ≤ genPMax umin umax d → umin - d ≤ x ∧ x ≤ umax + d) ∧
    (umin ≤ x ∧ x ≤ umax → genPMin umin umax d ≤ x ∧ x ≤ genPMax umin umax d) ∧
    (genQMin umin umax d ≤ x ∧ x ≤ genQMax umin umax d → umin - d ≤ x ∧ x ≤ umax + d) ∧
    (umin ≤ x ∧ x ≤ umax → genQMin umin umax d ≤ x ∧ x ≤ genQMax umin umax d) := by
  unfold genPMin genPMax genQMin genQMax
  refine ⟨?_, ?_, ?_, ?_⟩ <;> rintro ⟨h1, h2⟩ <;> constructor <;> linarith

/-- inverted sign (loads, storages): the solver's variable is x = −p -/
theorem C16_inverted_limits (umin umax d p : K) (hd : 0 ≤ d) :
    (invPMin umin umax d ≤ -p ∧ -p ≤ invPMax umin umax d → umin - d ≤ p ∧ p ≤ umax + d) ∧
    (umin ≤ p ∧ p ≤ umax → invPMin umin umax d ≤ -p ∧ -p ≤ invPMax umin umax d) ∧
    (invQMin umin umax d ≤ -p ∧ -p ≤ invQMax umin umax d → umin - d ≤ p ∧ p ≤ umax + d) ∧
    (umin ≤ p ∧ p ≤ umax → invQMin umin umax d ≤ -p ∧ -p ≤ invQMax umin umax d) := by
  unfold invPMin invPMax invQMin invQMax
  refine ⟨?_, ?_, ?_, ?_⟩ <;> rintro ⟨h1, h2⟩ <;> constructor <;> linarith

/-- the ppc interval of a consistent user interval is never empty -/
theorem C16_limits_nonempty (umin umax d : K) (hd : 0 ≤ d) (h : umin ≤ umax) :
    genPMin umin umax d ≤ genPMax umin umax d ∧ invPMin umin umax d ≤ invPMax umin umax d := by
  unfold genPMin genPMax invPMin invPMax
  constructor <;> linarith

/-- a fixed set point: window of width 2·delta -/
theorem C16_fixed_setpoint (p d x : K) (h : p - d ≤ x ∧ x ≤ p + d) : |x - p| ≤ d := by
  rw [abs_le]; constructor <;> linarith [h.1, h.2]

/-- dcline bookkeeping is consistent -/
theorem C16_dcline_bookkeeping : dcPairs = "all" ∧ dcPairIndex = "all" ∧ dcRows = "in_service" ∧ dcRhs = "in_service" := by
  decide

example : invPMin (20 : ℚ) 60 0 ≤ -(45) ∧ -(45 : ℚ) ≤ invPMax 20 60 0 := by
  unfold invPMin invPMax; norm_num

end PPVerif.Props.C16
