/-
  Property C03 — energy conservation and non-negative losses of passive branches.
-/
import PPVerif.Model.ElemDefs
import PPVerif.Props.C01
import Mathlib.Tactic.Ring
import Mathlib.Tactic.FieldSimp
import Mathlib.Tactic.Linarith
import Mathlib.Data.Complex.Basic

namespace PPVerif.C03
open PPVerif.PF PPVerif.Elem

section ring
variable {R : Type} [CommRing R] [StarRing R]

/-- a branch's reported loss is the sum of its terminal powers: pl = p_from + p_to, ql = q_from + q_to -/
theorem C03_loss_def (b : Branch R) (V : Nat → R) : sLoss b V = sFrom b V + sTo b V := rfl

theorem sum_ite_eq_of_mem (ns : List Nat) (hn : ns.Nodup) (j : Nat) (hj : j ∈ ns) (x : R) :
    (ns.map fun i => if j = i then x else 0).sum = x := by
  induction ns with
  | nil => cases hj
  | cons n ns ih =>
    rw [List.nodup_cons] at hn
    simp only [List.map_cons, List.sum_cons]
    rcases List.mem_cons.mp hj with rfl | hm
    · have : (ns.map fun i => if j = i then x else 0).sum = 0 := by
        apply List.sum_eq_zero
        intro y hy
        obtain ⟨i, hi, rfl⟩ := List.mem_map.mp hy
        have : j ≠ i := fun h => hn.1 (h ▸ hi)
        simp [this]
      simp [this]
    · have hne : j ≠ n := fun h => hn.1 (h ▸ hm)
      simp [hne, ih hn.2 hm]

theorem sum_branchesAt (brs : List (Branch R)) (V : Nat → R) (ns : List Nat) (hn : ns.Nodup)
    (hc : ∀ b ∈ brs, b.f ∈ ns ∧ b.t ∈ ns) :
    (ns.map (sBranchesAt brs V)).sum = (brs.map (sLoss · V)).sum := by
  induction brs with
  | nil =>
    have : sBranchesAt ([] : List (Branch R)) V = fun _ => 0 := by funext i; simp [sBranchesAt]
    simp [this]
  | cons b bs ih =>
    have hb := hc b (by simp)
    have e : sBranchesAt (b :: bs) V = fun i =>
        ((if b.f = i then sFrom b V else 0) + (if b.t = i then sTo b V else 0)) + sBranchesAt bs V i := by
      funext i; simp [sBranchesAt]
    rw [e]
    simp only [List.map_cons, List.sum_cons]
    rw [List.sum_map_add, List.sum_map_add, ih (fun b' hb' => hc b' (List.mem_cons_of_mem _ hb')),
      sum_ite_eq_of_mem ns hn b.f hb.1, sum_ite_eq_of_mem ns hn b.t hb.2]
    rfl

/-- **global conservation**: summed over all nodes, the calculated injections equal the sum of all branch losses plus
    the power of the bus shunts — every network, every voltage vector; hence at a solution total generation minus
    total consumption (incl. shunt elements) equals the sum of the reported branch losses -/
theorem C03_global_conservation (brs : List (Branch R)) (ysh : Nat → R) (V : Nat → R) (ns : List Nat) (hn : ns.Nodup)
    (hc : ∀ b ∈ brs, b.f ∈ ns ∧ b.t ∈ ns) :
    (ns.map (sCalc brs ysh V)).sum = (brs.map (sLoss · V)).sum + (ns.map (sShunt ysh V)).sum := by
  have : sCalc brs ysh V = fun i => sBranchesAt brs V i + sShunt ysh V i :=
    funext fun i => PPVerif.C01.C01_kirchhoff brs ysh V i
  rw [this, List.sum_map_add, sum_branchesAt brs V ns hn hc]

end ring

section field
variable {R : Type} [Field R] [StarRing R]

/-- loss of a pi branch (series impedance z, total shunt admittance yc, complex ratio tap) as a sum of "squares" -/
theorem loss_decomposition (f t : Nat) (z yc tap : R) (hz : z ≠ 0) (htap : tap ≠ 0) (V : Nat → R) :
    sLoss (branchY f t ⟨z, z, yc, yc, tap⟩) V =
      star (1 / z) * ((V f / tap - V t) * star (V f / tap - V t)) +
      star (yc / 2) * ((V f / tap) * star (V f / tap) + V t * star (V t)) := by
  have hs : star tap ≠ 0 := by simpa using htap
  have hsz : star z ≠ 0 := by simpa using hz
  simp only [sLoss, sFrom, sTo, iFrom, iTo, branchY, star_add, star_mul, star_div₀, star_neg, star_sub, star_one, star_star,
    star_ofNat]
  field_simp
  ring

end field

/-- **non-negative losses**: over ℂ, a pi branch whose series admittance and shunt admittance have non-negative real
    parts (r ≥ 0, g ≥ 0) has non-negative active loss for EVERY pair of terminal voltages and every complex ratio -/
theorem C03_loss_nonneg (f t : Nat) (z yc tap : ℂ) (hz : z ≠ 0) (htap : tap ≠ 0) (hr : 0 ≤ (1 / z).re) (hg : 0 ≤ yc.re)
    (V : Nat → ℂ) : 0 ≤ (sLoss (branchY f t ⟨z, z, yc, yc, tap⟩) V).re := by
  rw [loss_decomposition f t z yc tap hz htap V]
  have key : ∀ (y w : ℂ), (star y * (w * star w)).re = y.re * Complex.normSq w := by
    intro y w
    have : w * star w = (Complex.normSq w : ℂ) := Complex.mul_conj w
    rw [this]
    simp [Complex.mul_re]
  have e2 : (V f / tap) * star (V f / tap) + V t * star (V t) =
      ((Complex.normSq (V f / tap) + Complex.normSq (V t) : ℝ) : ℂ) := by
    rw [Complex.ofReal_add]
    congr 1 <;> exact Complex.mul_conj _
  rw [Complex.add_re, key, e2]
  have k2' : ∀ (y : ℂ) (r : ℝ), (star (y / 2) * (r : ℂ)).re = (y.re / 2) * r := by
    intro y r; simp [Complex.mul_re]
  have k2 := k2' yc (Complex.normSq (V f / tap) + Complex.normSq (V t))
  rw [k2]
  have n1 := Complex.normSq_nonneg (V f / tap - V t)
  have n2 := Complex.normSq_nonneg (V f / tap)
  have n3 := Complex.normSq_nonneg (V t)
  have : 0 ≤ yc.re / 2 := by linarith
  nlinarith [mul_nonneg hr n1, mul_nonneg this (add_nonneg n2 n3)]

/-- a series impedance with non-negative resistance has a series admittance with non-negative real part -/
theorem C03_series_re_nonneg (z : ℂ) (hr : 0 ≤ z.re) : 0 ≤ (1 / z).re := by
  simp only [one_div, Complex.inv_re]
  exact div_nonneg hr (Complex.normSq_nonneg z)

end PPVerif.C03
