/-
  Property C02 — power flow honours the documented element equivalent circuits.
-/
import PPVerif.Model.ElemDefs
import PPVerif.Generated.C02
import Mathlib.Tactic.Ring
import Mathlib.Tactic.FieldSimp
import Mathlib.Tactic.LinearCombination
import Mathlib.Analysis.Real.Sqrt
import Mathlib.Data.Real.Sign
import Mathlib.Algebra.CharZero.Defs

namespace PPVerif.C02
open PPVerif.PF PPVerif.Elem

variable {R : Type} [Field R] [StarRing R]

/-- **matrix entries = equivalent circuit**: the currents `Yff Vf + Yft Vt`, `Ytf Vf + Ytt Vt` that the solver and the
    result extraction use are the terminal currents of the documented circuit (ideal transformer with complex ratio at
    the from side, series impedance, shunt halves) — for all parameters with non-zero impedances and ratio, all voltages -/
theorem C02_entries_eq_circuit (f t : Nat) (p : BrPar R) (hzf : p.zf ≠ 0) (hzt : p.zt ≠ 0) (htap : p.tap ≠ 0)
    (V : Nat → R) :
    iFrom (branchY f t p) V = circuitIFrom p (V f) (V t) ∧ iTo (branchY f t p) V = circuitITo p (V f) (V t) := by
  have hs : star p.tap ≠ 0 := by simpa using htap
  constructor
  · simp only [iFrom, branchY, circuitIFrom]; field_simp; ring
  · simp only [iTo, branchY, circuitITo]; field_simp; ring

/-- **per unit = SI**: powers computed from per-unit admittances and voltages, times the base power, are the powers
    of the same circuit in SI units (kV, ohm⁻¹·…): with V_SI = vn·V_pu and Y_SI = y_pu·sn/vn² (vn, sn real) -/
theorem C02_pu_eq_SI (y v1 v2 vn sn : R) (hvn : vn ≠ 0) (hr : star vn = vn) (hsn : star sn = sn) :
    (vn * v1) * star ((y * sn / vn ^ 2) * (vn * v2)) = sn * (v1 * star (y * v2)) := by
  simp only [star_mul, star_div₀, star_pow, hr, hsn]
  field_simp

/-- **T model**: the pi parameters that `_wye_delta` hands to the solver have, for all terminal voltages, exactly the
    terminal currents of the T circuit (leakage split za | magnetising admittance y | zb), any leakage split -/
theorem C02_wye_delta_equiv (za zb y vf vt : R) (ha : za ≠ 0) (hb : zb ≠ 0) (hy : y ≠ 0)
    (hs : 1 / za + 1 / zb + y ≠ 0) (hsum : za * zb + za * (1 / y) + zb * (1 / y) ≠ 0) :
    let p := wyeDelta za zb y
    (vf - vt) / p.z + p.yfHalf * vf = teeIFrom za zb y vf vt ∧ (vt - vf) / p.z + p.ytHalf * vt = teeITo za zb y vf vt := by
  have hs' : zb + za + y * za * zb ≠ 0 := by
    intro h; apply hs; field_simp; linear_combination h
  have hsum' : za * zb * y + za + zb ≠ 0 := by
    intro h; apply hsum; field_simp; linear_combination h
  have hd1 : za + za * zb * y + zb ≠ 0 := by intro h; apply hsum'; linear_combination h
  have hd2 : zb + zb * za * y + za ≠ 0 := by intro h; apply hsum'; linear_combination h
  have e1 : (za * zb + za * (1 / y) + zb * (1 / y)) = (za + za * zb * y + zb) / y := by field_simp; ring
  have e2 : (1 / za + 1 / zb + y) = (za + za * zb * y + zb) / (za * zb) := by field_simp; ring
  constructor
  · simp only [wyeDelta, teeIFrom, teeStar]
    rw [e1, e2]; field_simp
    linear_combination vf * (mul_inv_cancel₀ hd1)
  · simp only [wyeDelta, teeITo, teeStar]
    rw [e1, e2]; field_simp
    linear_combination vt * (mul_inv_cancel₀ hd1)

/-- both asymmetric columns are consulted before the to-side parameters fall back to the from-side ones -/
theorem C02_asym_guards :
    PPVerif.Generated.C02.seriesAsymGuard = ["BR_R_ASYM", "BR_X_ASYM"] ∧
    PPVerif.Generated.C02.shuntAsymGuard = ["BR_G_ASYM", "BR_B_ASYM"] ∧
    PPVerif.Generated.C02.trafo3wPowerLoadingRatings = ["sn_hv_mva", "sn_mv_mva", "sn_lv_mva"] := by decide

/-! ## two-winding transformer: short-circuit impedance from vk / vkr (generated from `_calc_r_x_from_dataframe`) -/
section trafo
open PPVerif.Generated.C02

/-- the short-circuit impedance on the net's per-unit base: vk on the transformer's own base (sn_trafo, vn_trafo_lv)
    converted to (sn_net, vn_bus) -/
theorem C02_trafo_zsc_base_change {K : Type} [Field K] (vk snt vt vb sn : K) (hs : snt ≠ 0) (hb : vb ≠ 0) (hn : sn ≠ 0) :
    trafoZsc vk snt vt vb sn * (vb ^ 2 / sn) = (vk / 100) * (vt ^ 2 / snt) := by
  unfold trafoZsc; field_simp

theorem rx_magnitude (z r p : ℝ) (hp : p ≠ 0) (hle : r ^ 2 ≤ z ^ 2) :
    (r / p) ^ 2 + (Real.sign z * Real.sqrt (z ^ 2 - r ^ 2) / p) ^ 2 = (z / p) ^ 2 := by
  have hsq : Real.sqrt (z ^ 2 - r ^ 2) ^ 2 = z ^ 2 - r ^ 2 := Real.sq_sqrt (by linarith)
  have hx : (Real.sign z * Real.sqrt (z ^ 2 - r ^ 2)) ^ 2 = z ^ 2 - r ^ 2 := by
    rcases lt_trichotomy z 0 with hz | hz | hz
    · rw [Real.sign_of_neg hz, mul_pow, hsq]; ring
    · have hr : r ^ 2 ≤ 0 := by rw [hz] at hle; simpa using hle
      have hr0 : r ^ 2 = 0 := le_antisymm hr (sq_nonneg r)
      rw [hz, Real.sign_zero, zero_mul, hr0]; ring
    · rw [Real.sign_of_pos hz, mul_pow, hsq]; ring
  rw [div_pow, div_pow, div_pow, hx]
  field_simp
  ring

/-- |z| = vk: the returned r and x (with parallel transformers) satisfy r² + x² = (z_sc / parallel)², the sign of x following
    the sign of vk, whenever vkr does not exceed vk in magnitude -/
theorem C02_trafo_r_x_magnitude (vk vkr snt vt vb sn p : ℝ) (hp : p ≠ 0)
    (hle : (trafoZsc vkr snt vt vb sn) ^ 2 ≤ (trafoZsc vk snt vt vb sn) ^ 2) :
    (trafoZsc vkr snt vt vb sn / p) ^ 2 +
      (Real.sign (trafoZsc vk snt vt vb sn) * Real.sqrt ((trafoZsc vk snt vt vb sn) ^ 2 - (trafoZsc vkr snt vt vb sn) ^ 2) / p) ^ 2 =
      (trafoZsc vk snt vt vb sn / p) ^ 2 :=
  rx_magnitude _ _ p hp hle

/-- for positive vk the reactance is positive, for negative vk negative (np.sign) -/
theorem C02_trafo_x_sign (z r : ℝ) (hlt : r ^ 2 < z ^ 2) (hz : 0 < z) : 0 < Real.sign z * Real.sqrt (z ^ 2 - r ^ 2) := by
  rw [Real.sign_of_pos hz, one_mul]; exact Real.sqrt_pos.2 (by linarith)

/-- the R/X split follows vkr / vk -/
theorem C02_trafo_r_over_z {K : Type} [Field K] [CharZero K] (vk vkr snt vt vb sn : K) (hs : snt ≠ 0) (hb : vb ≠ 0) (hn : sn ≠ 0) (ht : vt ≠ 0) (hk : vk ≠ 0) :
    trafoZsc vkr snt vt vb sn / trafoZsc vk snt vt vb sn = vkr / vk := by
  unfold trafoZsc; field_simp
end trafo

end PPVerif.C02
