/-
  Property C29 — protection devices trip later for smaller currents, never earlier.
  Stage lists, comparison operators, result fields and curve constants are regenerated from fuse.py / ocrelay.py.
-/
import PPVerif.Model.ProtDefs
import PPVerif.Generated.C29
import Mathlib.Tactic.Linarith
import Mathlib.Tactic.Positivity

namespace PPVerif.C29
open PPVerif.Prot PPVerif.Generated.C29

variable {K : Type} [Field K] [LinearOrder K] [IsStrictOrderedRing K]

/-! ### fuse -/

/-- the fuse melts exactly when the current reaches the first point of its characteristic -/
theorem C29_fuse_trips_iff (c : K → K) (iStart iStop i : K) (h : iStart ≤ iStop) :
    (fuseEval fuseCmp c iStart iStop i).tripped = true ↔ iStart ≤ i := by
  unfold fuseEval
  simp only [fuseCmp]
  by_cases h1 : i < iStart
  · simp [h1, not_le.mpr h1]
  · have : iStart ≤ i := not_lt.mp h1
    by_cases h2 : i ≤ iStop <;> simp [h1, h2, this]

/-- melting time is a non-increasing function of the current: for a characteristic that is non-increasing and
    non-negative between its first and last point (monotone point sets: C32 shows this for the shape-preserving
    interpolation, piece by piece), over all three regimes (below the curve: ∞, on it, beyond it: 0) -/
theorem C29_fuse_monotone (c : K → K) (iStart iStop : K)
    (hanti : ∀ a b, iStart ≤ a → a ≤ b → b ≤ iStop → c b ≤ c a)
    (hpos : ∀ a, iStart ≤ a → a ≤ iStop → 0 ≤ c a)
    (i i' : K) (hii : i ≤ i') :
    tle (fuseEval fuseCmp c iStart iStop i').time (fuseEval fuseCmp c iStart iStop i).time := by
  unfold fuseEval
  simp only [fuseCmp]
  by_cases h1 : i < iStart
  · simp only [h1, if_true]; cases (if i' < iStart then (⟨false, none⟩ : Res K) else
      if i' ≤ iStop then ⟨true, some (c i')⟩ else ⟨true, some 0⟩).time <;> simp [tle]
  · have hs : iStart ≤ i := not_lt.mp h1
    have h1' : ¬ i' < iStart := not_lt.mpr (le_trans hs hii)
    simp only [h1, h1', if_false]
    by_cases h2 : i ≤ iStop
    · by_cases h2' : i' ≤ iStop
      · simp only [h2, h2', if_true, tle]; exact hanti i i' hs hii h2'
      · simp only [h2, h2', if_true, if_false, tle]; exact hpos i hs h2
    · have h2' : ¬ i' ≤ iStop := fun h => h2 (le_trans hii h)
      simp only [h2, h2', if_false, tle]; exact le_refl _

/-! ### over-current relays -/

theorem find_stage_nil (p : RelayP K) (i : K) : ([] : List (Thresh × TimeKind)).find? (fun st => decide (thr p st.1 < i)) = none := rfl

/-- DTOC: trips exactly when the current exceeds the lower pick-up value `I>` (for graded pick-ups `I> ≤ I>>`) -/
theorem C29_dtoc_trips_iff (rho : K → K) (p : RelayP K) (hg : p.Ig ≤ p.Igg) (i : K) :
    (relayEval rho p dtocStages i).tripped = true ↔ p.Ig < i := by
  unfold relayEval
  simp only [dtocStages, List.find?, thr]
  by_cases h1 : p.Igg < i
  · simp [h1, lt_of_le_of_lt hg h1]
  · by_cases h2 : p.Ig < i <;> simp [h1, h2]

/-- DTOC: trip time non-increasing in the current for consistently graded settings (`I> ≤ I>>`, `t>> ≤ t>`) -/
theorem C29_dtoc_monotone (rho : K → K) (p : RelayP K) (hg : p.Ig ≤ p.Igg) (ht : p.tgg ≤ p.tg) (i i' : K) (hii : i ≤ i') :
    tle (relayEval rho p dtocStages i').time (relayEval rho p dtocStages i).time := by
  unfold relayEval
  simp only [dtocStages, List.find?, thr]
  by_cases h1 : p.Igg < i
  · have h1' : p.Igg < i' := lt_of_lt_of_le h1 hii
    simp [h1, h1', tle, stageTime]
  · by_cases h2 : p.Ig < i
    · have h2' : p.Ig < i' := lt_of_lt_of_le h2 hii
      by_cases h1' : p.Igg < i' <;> simp [h1, h2, h1', h2', tle, stageTime, ht]
    · simp only [h1, h2, decide_false]
      cases (match (if decide (p.Igg < i') = true then some (Thresh.Igg, TimeKind.tgg) else
        if decide (p.Ig < i') = true then some (Thresh.Ig, TimeKind.tg) else none) with
        | some st => (⟨true, some (stageTime rho p i' st.2)⟩ : Res K) | none => ⟨false, none⟩).time <;> simp [tle]

/-- hypotheses on the oracle function `rho r = r ** alpha` (alpha > 0): above 1 on (1, ∞) and non-decreasing there -/
structure RhoOK (rho : K → K) : Prop where
  gt_one : ∀ r, 1 < r → 1 < rho r
  mono : ∀ r r', 1 < r → r ≤ r' → rho r ≤ rho r'

theorem idmt_anti (rho : K → K) (hr : RhoOK rho) (p : RelayP K) (hIs : 0 < p.Is) (hk : 0 ≤ p.tms * p.k)
    (i i' : K) (hi : p.Is < i) (hii : i ≤ i') : idmt rho p i' ≤ idmt rho p i := by
  unfold idmt
  have r1 : 1 < i / p.Is := (one_lt_div hIs).mpr hi
  have r2 : i / p.Is ≤ i' / p.Is := (div_le_div_iff_of_pos_right hIs).mpr hii
  have d1 : 0 < rho (i / p.Is) - 1 := sub_pos.mpr (hr.gt_one _ r1)
  have d12 : rho (i / p.Is) - 1 ≤ rho (i' / p.Is) - 1 := by linarith [hr.mono _ _ r1 r2]
  have : p.tms * p.k / (rho (i' / p.Is) - 1) ≤ p.tms * p.k / (rho (i / p.Is) - 1) :=
    div_le_div_of_nonneg_left hk d1 d12
  linarith

/-- IDMT: trips exactly above `I_s`; the time is non-increasing in the current (tms·k ≥ 0) -/
theorem C29_idmt_trips_iff (rho : K → K) (p : RelayP K) (i : K) :
    (relayEval rho p idmtStages i).tripped = true ↔ p.Is < i := by
  unfold relayEval
  simp only [idmtStages, List.find?, thr]
  by_cases h : p.Is < i <;> simp [h]

theorem C29_idmt_monotone (rho : K → K) (hr : RhoOK rho) (p : RelayP K) (hIs : 0 < p.Is) (hk : 0 ≤ p.tms * p.k)
    (i i' : K) (hii : i ≤ i') :
    tle (relayEval rho p idmtStages i').time (relayEval rho p idmtStages i).time := by
  unfold relayEval
  simp only [idmtStages, List.find?, thr]
  by_cases h : p.Is < i
  · have h' : p.Is < i' := lt_of_lt_of_le h hii
    simp only [h, h', decide_true, if_true, tle, stageTime]
    exact idmt_anti rho hr p hIs hk i i' h hii
  · by_cases h' : p.Is < i' <;> simp [h, h', tle]

/-- IDTOC (definite-time stages above an inverse-time stage): non-increasing for consistently graded settings:
    `I_s ≤ I> ≤ I>>`, `t>> ≤ t>`, and the definite stage not slower than the inverse curve where it takes over
    (`t> ≤ idmt(i)` for the currents of the inverse stage) -/
theorem C29_idtoc_monotone (rho : K → K) (hr : RhoOK rho) (p : RelayP K) (hIs : 0 < p.Is) (hk : 0 ≤ p.tms * p.k)
    (hsg : p.Is ≤ p.Ig) (hg : p.Ig ≤ p.Igg) (ht : p.tgg ≤ p.tg)
    (hjoin : ∀ i, p.Is < i → i ≤ p.Ig → p.tg ≤ idmt rho p i)
    (i i' : K) (hii : i ≤ i') :
    tle (relayEval rho p idtocStages i').time (relayEval rho p idtocStages i).time := by
  unfold relayEval
  simp only [idtocStages, List.find?, thr]
  by_cases h1 : p.Igg < i
  · have h1' : p.Igg < i' := lt_of_lt_of_le h1 hii
    simp [h1, h1', tle, stageTime]
  · by_cases h2 : p.Ig < i
    · have h2' : p.Ig < i' := lt_of_lt_of_le h2 hii
      by_cases h1' : p.Igg < i' <;> simp [h1, h2, h1', h2', tle, stageTime, ht]
    · by_cases h3 : p.Is < i
      · have h3' : p.Is < i' := lt_of_lt_of_le h3 hii
        have hi_le : i ≤ p.Ig := not_lt.mp h2
        by_cases h1' : p.Igg < i'
        · simp only [h1, h2, h3, h1', decide_true, decide_false, if_true, tle, stageTime]
          exact le_trans ht (hjoin i h3 hi_le)
        · by_cases h2' : p.Ig < i'
          · simp only [h1, h2, h3, h1', h2', decide_true, decide_false, if_true, tle, stageTime]
            exact hjoin i h3 hi_le
          · simp only [h1, h2, h3, h1', h2', h3', decide_true, decide_false, if_true, tle, stageTime]
            exact idmt_anti rho hr p hIs hk i i' h3 hii
      · simp only [h1, h2, h3, decide_false]
        cases (match (if decide (p.Igg < i') = true then some (Thresh.Igg, TimeKind.tgg) else
          if decide (p.Ig < i') = true then some (Thresh.Ig, TimeKind.tg) else
          if decide (p.Is < i') = true then some (Thresh.Is, TimeKind.idmt) else none) with
          | some st => (⟨true, some (stageTime rho p i' st.2)⟩ : Res K) | none => ⟨false, none⟩).time <;> simp [tle]

theorem C29_idtoc_trips_iff (rho : K → K) (p : RelayP K) (hsg : p.Is ≤ p.Ig) (hg : p.Ig ≤ p.Igg) (i : K) :
    (relayEval rho p idtocStages i).tripped = true ↔ p.Is < i := by
  unfold relayEval
  simp only [idtocStages, List.find?, thr]
  by_cases h1 : p.Igg < i
  · simp [h1, lt_of_le_of_lt (le_trans hsg hg) h1]
  · by_cases h2 : p.Ig < i
    · simp [h1, h2, lt_of_le_of_lt hsg h2]
    · by_cases h3 : p.Is < i <;> simp [h1, h2, h3]

/-- the curve constants of all four IDMT curve types are positive (k > 0, alpha > 0), and the stage lists, the
    current look-up per scenario and the reported activation value are what the property says -/
theorem C29_generated_facts :
    (kAlpha.all fun e => decide (0 < e.2.1.1) && decide (0 < e.2.1.2) && decide (0 < e.2.2.1) && decide (0 < e.2.2.2)) = true ∧
    kAlpha.length = 4 ∧
    fuseCurrent = [("sc", "net.res_switch_sc.ikss_ka.at[self.switch_index]"), ("pp", "net.res_switch.i_ka.at[self.switch_index]")] ∧
    relayCurrent = fuseCurrent ∧
    fuseActivation = ("i_ka", "self.switch_index") ∧ relayActivation = ("i_ka", "self.switch_index") := by decide

/-! ### the grading hypotheses are needed: witnesses over ℚ-like integers embedded in any ordered field are avoided by
    using `Int`-valued instances through `Rat`-free arithmetic: here with K := ℚ-free `Int`-cast literals. -/
theorem C29_witness_ungraded_dtoc :
    let p : RelayP ℚ := ⟨1, 2, 0, 1/10, 5, 0, 0, 0⟩      -- t>> = 5 s slower than t> = 0.1 s: not graded
    (relayEval (fun r => r) p dtocStages 3).time = some 5 ∧ (relayEval (fun r => r) p dtocStages (3/2)).time = some (1/10) := by
  refine ⟨?_, ?_⟩ <;> simp [relayEval, dtocStages, List.find?, thr, stageTime] <;> norm_num

/-- non-vacuity: a graded DTOC setting -/
example : (1 : ℚ) ≤ 2 ∧ (1 / 20 : ℚ) ≤ 1 / 2 := by norm_num

end PPVerif.C29
