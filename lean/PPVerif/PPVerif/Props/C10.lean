/-
  C10 — distributed slack shares the balancing power in proportion to the weights.
  Solver equation (generated from `_evaluate_Fx`): at a solution the mismatch `S_calc − S_bus + w_bus·slack` vanishes at
  every bus, i.e. the power of a bus is the sum of its set points plus (sum of its weights)·Δ with one Δ for the island.
  Theorems: under that equation `_split_p_for_gens_at_same_bus` gives every generator  set point + weight·Δ  — so
  deviation / weight is the same Δ for every participant and non-participants keep their set points — and the powers
  given out at a bus add up to the bus power (the nodal balance is kept); normalised weights sum to one and keep ratios.
-/
import PPVerif.Model.DSlackDefs
import Mathlib.Tactic.Ring
import Mathlib.Tactic.FieldSimp
import Mathlib.Tactic.Linarith
import Mathlib.Algebra.Order.BigOperators.Group.List
import Mathlib.Algebra.BigOperators.Group.List.Basic

namespace PPVerif.Props.C10
open PPVerif.DSlack PPVerif.Generated.C10

set_option linter.unusedSectionVars false
variable {K : Type} [Field K] [LinearOrder K] [IsStrictOrderedRing K]

theorem sum_partition (f : G K → K) (gs : List (G K)) : sumRef f gs + sumNon f gs = (gs.map f).sum := by
  unfold sumRef sumNon
  induction gs with
  | nil => simp
  | cons g gs ih =>
    cases h : g.ref <;> simp [h] <;> linarith [ih]

theorem sumNon_w_zero (gs : List (G K)) (h : ∀ g ∈ gs, g.ref = false → g.w = 0) : sumNon (·.w) gs = 0 := by
  unfold sumNon
  induction gs with
  | nil => simp
  | cons g gs ih =>
    have ih' := ih (fun x hx => h x (List.mem_cons_of_mem _ hx))
    cases hr : g.ref
    · simp [hr, h g (List.mem_cons_self) hr]; simpa using ih'
    · simp [hr]; simpa using ih'

theorem sumRef_nonneg (gs : List (G K)) (h : ∀ g ∈ gs, 0 ≤ g.w) : 0 ≤ sumRef (·.w) gs := by
  unfold sumRef
  apply List.sum_nonneg
  intro x hx
  rw [List.mem_map] at hx
  obtain ⟨g, hg, rfl⟩ := hx
  exact h g (List.mem_of_mem_filter hg)

theorem sumRef_zero_all (gs : List (G K)) (h : ∀ g ∈ gs, 0 ≤ g.w) (hs : sumRef (·.w) gs ≤ 0) :
    ∀ g ∈ gs, g.ref = true → g.w = 0 := by
  induction gs with
  | nil => intro g hg; cases hg
  | cons a gs ih =>
    have hn := sumRef_nonneg gs (fun x hx => h x (List.mem_cons_of_mem _ hx))
    intro g hg hr
    cases ha : a.ref
    · have : sumRef (·.w) (a :: gs) = sumRef (·.w) gs := by simp [sumRef, ha]
      rw [this] at hs
      rcases List.mem_cons.1 hg with rfl | hg'
      · rw [ha] at hr; cases hr
      · exact ih (fun x hx => h x (List.mem_cons_of_mem _ hx)) hs g hg' hr
    · have : sumRef (·.w) (a :: gs) = a.w + sumRef (·.w) gs := by simp [sumRef, ha]
      rw [this] at hs
      have h0 := h a List.mem_cons_self
      have haw : a.w = 0 := by linarith
      have hs' : sumRef (·.w) gs ≤ 0 := by linarith
      rcases List.mem_cons.1 hg with rfl | hg'
      · exact haw
      · exact ih (fun x hx => h x (List.mem_cons_of_mem _ hx)) hs' g hg' hr

theorem sumRef_pset_zero (gs : List (G K)) (h : ∀ g ∈ gs, g.ref = true → g.pset = 0) : sumRef (·.pset) gs = 0 := by
  unfold sumRef
  induction gs with
  | nil => simp
  | cons g gs ih =>
    have ih' := ih (fun x hx => h x (List.mem_cons_of_mem _ hx))
    cases hr : g.ref
    · simp [hr]; simpa using ih'
    · simp [hr, h g List.mem_cons_self hr]; simpa using ih'

/-- **proportional sharing**: with the solver equation  pbus = Σ set points + (Σ weights)·Δ  every generator of the bus gets
    exactly  set point + weight·Δ -/
theorem C10_share (gs : List (G K)) (pbus Δ : K)
    (hw : ∀ g ∈ gs, 0 ≤ g.w) (hnr : ∀ g ∈ gs, g.ref = false → g.w = 0)
    (hz : ∀ g ∈ gs, g.ref = true → g.w = 0 → g.pset = 0)
    (hs : pbus = (gs.map (·.pset)).sum + (gs.map (·.w)).sum * Δ) (g : G K) (hg : g ∈ gs) :
    result gs pbus g = g.pset + g.w * Δ := by
  unfold result
  split
  · rename_i hl
    match gs, hg, hl with
    | [a], hg, _ =>
      have : g = a := by simpa using hg
      subst this
      simp at hs
      rw [hs]
    | _ :: _ :: _, _, hl => simp at hl
  · cases hr : g.ref
    · simp [hnr g hg hr]
    · simp only [↓reduceIte]
      have hp := sum_partition (·.pset) gs
      have hq := sum_partition (·.w) gs
      rw [sumNon_w_zero gs hnr, add_zero] at hq
      split
      · rename_i hpos
        unfold splitW
        have hne : sumRef (·.w) gs ≠ 0 := ne_of_gt hpos
        rw [hs, ← hp, ← hq]
        field_simp
        ring
      · rename_i hnp
        have hall := sumRef_zero_all gs hw (not_lt.1 hnp)
        have hgw : g.w = 0 := hall g hg hr
        have hgp : g.pset = 0 := hz g hg hr hgw
        have hsz : sumRef (·.w) gs = 0 := le_antisymm (not_lt.1 hnp) (sumRef_nonneg gs hw)
        have hps : sumRef (·.pset) gs = 0 := sumRef_pset_zero gs (fun x hx hxr => hz x hx hxr (hall x hx hxr))
        unfold splitEq
        rw [hs, ← hp, ← hq, hps, hsz, hgw, hgp]
        simp

/-- participants: deviation / weight is the common Δ -/
theorem C10_equal_ratio (gs : List (G K)) (pbus Δ : K)
    (hw : ∀ g ∈ gs, 0 ≤ g.w) (hnr : ∀ g ∈ gs, g.ref = false → g.w = 0)
    (hz : ∀ g ∈ gs, g.ref = true → g.w = 0 → g.pset = 0)
    (hs : pbus = (gs.map (·.pset)).sum + (gs.map (·.w)).sum * Δ) (g : G K) (hg : g ∈ gs) (hgw : g.w ≠ 0) :
    (result gs pbus g - g.pset) / g.w = Δ := by
  rw [C10_share gs pbus Δ hw hnr hz hs g hg]
  field_simp
  ring

/-- non-participants keep their set points -/
theorem C10_nonparticipant (gs : List (G K)) (pbus Δ : K)
    (hw : ∀ g ∈ gs, 0 ≤ g.w) (hnr : ∀ g ∈ gs, g.ref = false → g.w = 0)
    (hz : ∀ g ∈ gs, g.ref = true → g.w = 0 → g.pset = 0)
    (hs : pbus = (gs.map (·.pset)).sum + (gs.map (·.w)).sum * Δ) (g : G K) (hg : g ∈ gs) (hgw : g.w = 0) :
    result gs pbus g = g.pset := by
  rw [C10_share gs pbus Δ hw hnr hz hs g hg, hgw]; ring

/-- the powers handed out at the bus add up to the bus power: the nodal balance of the solution is kept -/
theorem C10_bus_conserved (gs : List (G K)) (pbus Δ : K)
    (hw : ∀ g ∈ gs, 0 ≤ g.w) (hnr : ∀ g ∈ gs, g.ref = false → g.w = 0)
    (hz : ∀ g ∈ gs, g.ref = true → g.w = 0 → g.pset = 0)
    (hs : pbus = (gs.map (·.pset)).sum + (gs.map (·.w)).sum * Δ) :
    (gs.map (result gs pbus)).sum = pbus := by
  have : gs.map (result gs pbus) = gs.map (fun g => g.pset + g.w * Δ) :=
    List.map_congr_left (fun g hg => C10_share gs pbus Δ hw hnr hz hs g hg)
  rw [this, hs]
  clear this hs hw hnr hz
  induction gs with
  | nil => simp
  | cons a gs ih => simp only [List.map_cons, List.sum_cons, ih]; ring

/-- solver equation from the generated mismatch: mis = 0 gives  S_calc = S_bus − w·slack -/
theorem C10_mismatch_zero (scalc sbus w slack : K) (h : mis scalc sbus w slack = 0) : scalc = sbus + w * (-slack) := by
  unfold mis at h; linarith

/-- normalised weights sum to one and keep their ratios -/
theorem C10_norm_sum (ws : List K) (h : ws.sum ≠ 0) : (ws.map (fun w => norm w ws.sum)).sum = 1 := by
  unfold norm
  have : ∀ (l : List K) (c : K), (l.map (fun w => w / c)).sum = l.sum / c := by
    intro l c
    induction l with
    | nil => simp
    | cons a l ih => simp only [List.map_cons, List.sum_cons, ih]; ring
  rw [this, div_self h]

theorem C10_norm_ratio (w1 w2 s : K) (hs : s ≠ 0) (h2 : w2 ≠ 0) : norm w1 s / norm w2 s = w1 / w2 := by
  unfold norm; field_simp

/-- non-vacuity: two participants and a PV generator at one bus -/
example : result ([⟨10, 2, true⟩, ⟨5, 1, true⟩, ⟨3, 0, false⟩] : List (G ℚ)) (18 + 3 * 4) ⟨10, 2, true⟩ = 10 + 2 * 4 := by
  unfold result sumRef sumNon splitW; norm_num

end PPVerif.Props.C10
