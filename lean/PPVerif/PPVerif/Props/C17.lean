/-
  Property C17 — the OPF minimises (and res_cost reports) exactly the user-defined cost functions.
-/
import PPVerif.Model.OpfCost
import Mathlib.Tactic.Ring
import Mathlib.Tactic.FieldSimp
import Mathlib.Tactic.LinearCombination

namespace PPVerif.C17
open PPVerif.OpfCost PPVerif.Generated.C17

variable {K : Type}

/-- polynomial active-power cost: for every element kind (ppc generator power `pg = s·p`, `s = ±1`) and all
    coefficients, the gencost row written by the code evaluates to the user's `c2 p² + c1 p + c0` -/
theorem C17_poly_cost_eq [CommRing K] (s c2 c1 c0 p : K) (hs : s = 1 ∨ s = -1) :
    evalPoly3 (polyRowP3 s c2 c1 c0) (s * p) = userPoly c2 c1 c0 p := by
  rcases hs with rfl | rfl <;> simp only [polyRowP3, evalPoly3, userPoly] <;> ring

theorem C17_poly_cost_eq_linear [CommRing K] (s c1 c0 p : K) (hs : s = 1 ∨ s = -1) :
    evalPoly2 (polyRowP2 s c1 c0) (s * p) = userPoly 0 c1 c0 p := by
  rcases hs with rfl | rfl <;> simp only [polyRowP2, evalPoly2, userPoly] <;> ring

/-- the same for reactive-power costs -/
theorem C17_poly_cost_eq_q [CommRing K] (s c2 c1 c0 q : K) (hs : s = 1 ∨ s = -1) :
    evalPoly3 (polyRowQ3 s c2 c1 c0) (s * q) = userPoly c2 c1 c0 q ∧
    evalPoly2 (polyRowQ2 s c1 c0) (s * q) = userPoly 0 c1 c0 q := by
  rcases hs with rfl | rfl <;> simp only [polyRowQ3, polyRowQ2, evalPoly3, evalPoly2, userPoly] <;>
    constructor <;> ring

/-- the sign really is ±1 for every element kind, and the kinds with −1 are the ones whose ppc generator is
    built with inverted power (load, storage, dcline for p; load, storage for q) -/
theorem C17_sign_table [CommRing K] (kind : String) :
    (signOf (K := K) negKindsP kind = 1 ∨ signOf (K := K) negKindsP kind = -1) ∧
    negKindsP = ["load", "storage", "dcline"] ∧ negKindsQ = ["load", "storage"] ∧ negKindsMap = negKindsP := by
  refine ⟨?_, by decide, by decide, by decide⟩
  unfold signOf; split <;> simp

/-- piecewise linear cost: every breakpoint handed to the solver for a mirrored element is the mirror image of a
    breakpoint of the user's cost, with the user's cost value (any number of areas) -/
theorem C17_pwl_mirror [CommRing K] (pts : List (Area K)) :
    costsFromAreas pts true = (costsFromAreas pts false).reverse.map (fun xc => (-xc.1, xc.2)) := rfl

/-- the cost at the last breakpoint is the first area's start cost plus the sum of `(upper − lower)·slope`
    — by induction over the area list -/
theorem C17_pwl_last_break [CommRing K] (c : K) (a : Area K) (rest : List (Area K)) :
    ((breaksFrom c (a :: rest)).getLast?).map (·.2) = some (totalAt c (a :: rest)) := by
  induction rest generalizing c a with
  | nil => obtain ⟨lo, up, sl⟩ := a; simp [breaksFrom, totalAt]
  | cons b rest ih =>
    obtain ⟨lo, up, sl⟩ := a
    have := ih (c + (up - lo) * sl) b
    simp only [breaksFrom, totalAt] at this ⊢
    rw [List.getLast?_cons_cons]
    exact this

/-- number of breakpoints = number of areas + 1 (so NCOST is right for every list) -/
theorem C17_pwl_count [CommRing K] (pts : List (Area K)) (h : pts ≠ []) (neg : Bool) :
    (costsFromAreas pts neg).length = pts.length + 1 := by
  have hb : ∀ (c : K) (l : List (Area K)), (breaksFrom c l).length = l.length := by
    intro c l; induction l generalizing c with
    | nil => rfl
    | cons a l ih => obtain ⟨lo, up, sl⟩ := a; simp [breaksFrom, ih]
  cases pts with
  | nil => exact absurd rfl h
  | cons a l =>
    obtain ⟨lo, up, sl⟩ := a
    cases neg <;> simp [costsFromAreas, breaks, hb]

/-- a linear polynomial cost inside a piecewise-linear problem is represented by two breakpoints; interpolating
    them at the ppc power `s·p` gives `c1·p` — the user's cost **iff** the constant term is zero
    (KNOWN_FINDINGS key `mixed-pwl-poly-c0`) -/
theorem C17_lin_as_pwl_iff [Field K] (s pmin pmax c1 c0 p : K) (hs : s = 1 ∨ s = -1) (hne : pmax ≠ pmin) :
    (let r := linAsPwl s pmin pmax c1 c0
     interp2 r.1 r.2.1 r.2.2.1 r.2.2.2 (s * p)) = userPoly 0 c1 c0 p ↔ c0 = 0 := by
  have h1 : pmax - pmin ≠ 0 := sub_ne_zero.mpr hne
  have key : (let r := linAsPwl s pmin pmax c1 c0
      interp2 r.1 r.2.1 r.2.2.1 r.2.2.2 (s * p)) = c1 * p := by
    simp only [linAsPwl, interp2]
    rcases hs with rfl | rfl <;> field_simp <;> ring
  rw [key]
  simp only [userPoly]
  constructor
  · intro h; linear_combination (-1 : K) * h
  · intro h; subst h; ring

/-- non-vacuity / worked example over ℚ-like literals: a load (s = −1) with 3p² − 10p + 7 at p = 2 -/
example : evalPoly3 (polyRowP3 (-1 : Int) 3 (-10) 7) (-1 * 2) = userPoly (3 : Int) (-10) 7 2 := by decide

/-- the repaired defect as a model-level statement: multiplying *every* coefficient by the sign is wrong -/
theorem C17_witness_all_coefficients_signed :
    evalPoly3 ((3 * (-1), (-10) * (-1), 7 * (-1)) : Int × Int × Int) (-1 * 2) ≠ userPoly (3 : Int) (-10) 7 2 := by
  decide

end PPVerif.C17
