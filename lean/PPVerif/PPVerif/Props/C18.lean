/-
  C18 — short-circuit results are consistent with the IEC 60909 relations.
  Over the formulas generated from currents.py / kappa.py (s3 stands for sqrt 3 with s3² = 3, zabs for |z_equiv| in pu):
    * ikss(3ph) = c·Un / (sqrt3 · |Zk|) with Zk in ohm as reported (zOhm), for all values;
    * hence ikss does not depend on the per-unit base sn (the same Zk in ohm gives the same current for every sn);
    * skss = sqrt3 · Un · ikss;  ikss(2ph) = sqrt3/2 · ikss(3ph);  ip = kappa · sqrt2 · ikss without current sources;
    * kappa(R/X) lies in (1.02, 2] for every R/X ≥ 0 and decreases with R/X.
-/
import PPVerif.Generated.C18
import Mathlib.Tactic.Ring
import Mathlib.Tactic.FieldSimp
import Mathlib.Tactic.Linarith
import Mathlib.Tactic.NormNum

namespace PPVerif.Props.C18
open PPVerif.Generated.C18

section alg
variable {K : Type} [Field K]

/-- ikss = c·Un/(sqrt3·|Zk|), Zk the reported impedance in ohm -/
theorem C18_ikss_formula (c zabs vn sn s3 : K) (hz : zabs ≠ 0) (hv : vn ≠ 0) (hs : sn ≠ 0) (h3 : s3 ≠ 0) :
    ik3 c zabs vn sn s3 = c * vn / (s3 * zOhm zabs vn sn) := by
  unfold ik3 zOhm; field_simp

/-- the same fault impedance in ohm gives the same current for every per-unit base -/
theorem C18_ikss_independent_of_base (c zohm vn sn sn' s3 : K) (hz : zohm ≠ 0) (hv : vn ≠ 0) (hs : sn ≠ 0) (hs' : sn' ≠ 0)
    (h3 : s3 ≠ 0) :
    ik3 c (zohm / baseZ vn sn) vn sn s3 = ik3 c (zohm / baseZ vn sn') vn sn' s3 := by
  unfold ik3 baseZ; field_simp

theorem C18_skss (ik vn s3 : K) : sk3 ik vn s3 = s3 * vn * ik := by
  unfold sk3; ring

/-- two-phase = sqrt3/2 · three-phase (same c, same impedance) -/
theorem C18_two_phase_ratio (c zabs vn sn s3 : K) (hz : zabs ≠ 0) (hv : vn ≠ 0) (hs : sn ≠ 0)
    (h3nz : s3 ≠ 0) (h2 : (2 : K) ≠ 0) :
    ik2 c zabs vn sn = s3 / 2 * ik3 c zabs vn sn s3 := by
  unfold ik2 ik3
  field_simp

theorem C18_ip (kappa ik s2 : K) : ip kappa ik 0 s2 = kappa * s2 * ik := by
  unfold ip; ring
end alg

/-- kappa is in (1.02, 2] for every R/X ≥ 0 -/
theorem C18_kappa_range (rx : ℝ) (h : 0 ≤ rx) : 1.02 < kappa rx ∧ kappa rx ≤ 2 := by
  unfold kappa
  have hpos : 0 < Real.exp ((-3 : ℝ) / 1 * rx) := Real.exp_pos _
  have hle : Real.exp ((-3 : ℝ) / 1 * rx) ≤ 1 := by
    apply Real.exp_le_one_iff.2
    nlinarith
  generalize Real.exp ((-3 : ℝ) / 1 * rx) = e at hpos hle
  constructor
  · norm_num; linarith
  · linarith

/-- kappa decreases with R/X -/
theorem C18_kappa_antitone (a b : ℝ) (h : a ≤ b) : kappa b ≤ kappa a := by
  unfold kappa
  have : Real.exp ((-3 : ℝ) / 1 * b) ≤ Real.exp ((-3 : ℝ) / 1 * a) := by
    apply Real.exp_le_exp.2; nlinarith
  nlinarith

example : kappa 0 = 2 := by unfold kappa; norm_num

end PPVerif.Props.C18
