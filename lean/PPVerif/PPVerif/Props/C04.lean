/-
  C04 — power flow honours set points and element response laws.
  (1) Q-limit loop (`_run_ac_pf_with_qlims_enforced`), for every generator list, every power-flow function `solve`
      (any function from the limited set to reactive powers) and every start:
        * the loop ends within (number of generators + 1) rounds;
        * at the end every generator that is on, not reference and not limited lies within its limits and its bus is PV
          (keeps its voltage set point); every limited generator reports exactly the limit it violated in the round in
          which it was limited; with qmin ≤ qmax no non-reference generator reports a value outside its limits.
      The violation tests and fixed values are generated from the source.
  (2) response laws generated from results_bus.py / build_bus.py equal the documented laws for all values.
-/
import PPVerif.Generated.C04
import Mathlib.Tactic.Ring
import Mathlib.Tactic.FieldSimp
import Mathlib.Data.List.Basic
import Mathlib.Data.List.Perm.Subperm
import Mathlib.Data.List.Range

namespace PPVerif.Props.C04
open PPVerif.QLim PPVerif.Generated.C04

/-! ## Q-limit loop -/

def keys (lim : Limited) : List Nat := lim.map (·.1)

theorem isLimited_iff (lim : Limited) (i : Nat) : isLimited lim i = true ↔ i ∈ keys lim := by
  unfold isLimited keys
  simp only [List.any_eq_true, List.mem_map, beq_iff_eq]

/-- the limited list holds distinct generator indices -/
def Good (gens : List Gen) (lim : Limited) : Prop := (keys lim).Nodup ∧ ∀ i ∈ keys lim, i < gens.length

theorem viol1_some {L : Law} {q : Nat → Int} {lim : Limited} {gi : Gen × Nat} {e : Nat × Lim}
    (h : viol1 L q lim gi = some e) :
    e.1 = gi.2 ∧ gi.1.on = true ∧ gi.1.isRef = false ∧ isLimited lim gi.2 = false ∧
      ((e.2 = .atMin ∧ L.vmin gi.1 (q gi.2) = true) ∨ (e.2 = .atMax ∧ L.vmin gi.1 (q gi.2) = false ∧ L.vmax gi.1 (q gi.2) = true)) := by
  unfold viol1 at h
  split at h
  · rename_i hc
    simp only [Bool.and_eq_true, Bool.not_eq_eq_eq_not, Bool.not_true] at hc
    obtain ⟨⟨h1, h2⟩, h3⟩ := hc
    split at h
    · rename_i hm; cases h; exact ⟨rfl, h1, h2, h3, Or.inl ⟨rfl, hm⟩⟩
    · rename_i hm
      split at h
      · rename_i hx; cases h; exact ⟨rfl, h1, h2, h3, Or.inr ⟨rfl, by simpa using hm, hx⟩⟩
      · cases h
  · cases h

theorem viol1_none {L : Law} {q : Nat → Int} {lim : Limited} {gi : Gen × Nat}
    (h : viol1 L q lim gi = none) (h1 : gi.1.on = true) (h2 : gi.1.isRef = false) (h3 : isLimited lim gi.2 = false) :
    L.vmin gi.1 (q gi.2) = false ∧ L.vmax gi.1 (q gi.2) = false := by
  unfold viol1 at h
  simp only [h1, h2, h3, Bool.not_false, Bool.and_self, ↓reduceIte] at h
  split at h
  · cases h
  · rename_i hm
    split at h
    · cases h
    · rename_i hx; exact ⟨by simpa using hm, by simpa using hx⟩

theorem mem_violators {L : Law} {gens : List Gen} {q : Nat → Int} {lim : Limited} {e : Nat × Lim}
    (h : e ∈ violators L gens q lim) :
    ∃ g, gens[e.1]? = some g ∧ g.on = true ∧ g.isRef = false ∧ isLimited lim e.1 = false ∧
      ((e.2 = .atMin ∧ L.vmin g (q e.1) = true) ∨ (e.2 = .atMax ∧ L.vmin g (q e.1) = false ∧ L.vmax g (q e.1) = true)) := by
  unfold violators at h
  rw [List.mem_filterMap] at h
  obtain ⟨⟨g, i⟩, hm, hv⟩ := h
  have := viol1_some hv
  simp only at this
  obtain ⟨he, r⟩ := this
  rw [List.mem_zipIdx_iff_getElem?] at hm
  refine ⟨g, ?_, ?_⟩
  · rw [he]; exact hm
  · rw [he]; exact r

theorem keys_violators_sublist (L : Law) (gens : List Gen) (q : Nat → Int) (lim : Limited) :
    (keys (violators L gens q lim)).Sublist (List.range gens.length) := by
  unfold keys violators
  have h : ∀ (l : List Gen) (k : Nat),
      ((List.filterMap (viol1 L q lim) (l.zipIdx k)).map (·.1)).Sublist (List.range' k l.length) := by
    intro l
    induction l with
    | nil => intro k; simp
    | cons g gs ih =>
      intro k
      simp only [List.zipIdx_cons, List.length_cons, List.range'_succ]
      rw [List.filterMap_cons]
      cases hv : viol1 L q lim (g, k) with
      | none => exact (ih (k + 1)).cons _
      | some e =>
        have := (viol1_some hv).1
        simp only at this
        simp only [List.map_cons, this]
        exact (ih (k + 1)).cons_cons _
  have := h gens 0
  rwa [← List.range_eq_range'] at this

theorem good_append {L : Law} {gens : List Gen} {q : Nat → Int} {lim : Limited} (hg : Good gens lim) :
    Good gens (lim ++ violators L gens q lim) := by
  obtain ⟨hn, hb⟩ := hg
  have hs := keys_violators_sublist L gens q lim
  constructor
  · unfold keys at *
    rw [List.map_append, List.nodup_append]
    refine ⟨hn, hs.nodup (List.nodup_range), ?_⟩
    intro a ha b hb' hab
    subst hab
    rw [List.mem_map] at hb'
    obtain ⟨e, he, rfl⟩ := hb'
    obtain ⟨g, _, _, _, hl, _⟩ := mem_violators he
    have : isLimited lim e.1 = true := (isLimited_iff lim e.1).2 ha
    rw [hl] at this; cases this
  · intro i hi
    unfold keys at hi
    rw [List.map_append, List.mem_append] at hi
    rcases hi with hi | hi
    · exact hb i hi
    · exact List.mem_range.1 (hs.subset hi)

theorem good_length {gens : List Gen} {lim : Limited} (hg : Good gens lim) : lim.length ≤ gens.length := by
  obtain ⟨hn, hb⟩ := hg
  have hsub : keys lim ⊆ List.range gens.length := fun i hi => List.mem_range.2 (hb i hi)
  have := (List.subperm_of_subset hn hsub).length_le
  simpa [keys] using this

/-- **termination**: with at least (generators + 1 − already limited) rounds of fuel the loop ends -/
theorem C04_qlim_terminates (gens : List Gen) (solve : Limited → Nat → Int) :
    ∀ (fuel : Nat) (lim : Limited), Good gens lim → gens.length + 1 ≤ fuel + lim.length →
      (run law gens solve fuel lim).isSome = true := by
  intro fuel
  induction fuel with
  | zero =>
    intro lim hg hf
    have := good_length hg
    omega
  | succ n ih =>
    intro lim hg hf
    unfold run
    split
    · rfl
    · rename_i hne
      apply ih _ (good_append hg)
      have : 0 < (violators law gens (solve lim) lim).length := by
        cases hv : violators law gens (solve lim) lim with
        | nil => simp [hv] at hne
        | cons _ _ => simp
      rw [List.length_append]
      omega

/-- the loop from the empty limited list always ends within `gens.length + 1` rounds -/
theorem C04_qlim_terminates_from_start (gens : List Gen) (solve : Limited → Nat → Int) :
    (run law gens solve (gens.length + 1) []).isSome = true :=
  C04_qlim_terminates gens solve _ [] ⟨by simp [keys], by simp [keys]⟩ (by simp)

/-- every entry of the limited list was a violator, in the round it was added, of the limit it is now fixed at -/
def Hist (gens : List Gen) (solve : Limited → Nat → Int) (lim : Limited) : Prop :=
  ∀ e ∈ lim, ∃ g lim0, gens[e.1]? = some g ∧ g.isRef = false ∧ g.on = true ∧
    ((e.2 = .atMin ∧ violMin g (solve lim0 e.1) = true) ∨ (e.2 = .atMax ∧ violMax g (solve lim0 e.1) = true))

theorem run_spec (gens : List Gen) (solve : Limited → Nat → Int) :
    ∀ (fuel : Nat) (lim lim' : Limited), Good gens lim → Hist gens solve lim → run law gens solve fuel lim = some lim' →
      Good gens lim' ∧ Hist gens solve lim' ∧ lim <+: lim' ∧ violators law gens (solve lim') lim' = [] := by
  intro fuel
  induction fuel with
  | zero => intro lim lim' _ _ h; simp [run] at h
  | succ n ih =>
    intro lim lim' hg hh h
    unfold run at h
    split at h
    · rename_i he
      cases h
      exact ⟨hg, hh, List.prefix_refl _, by simpa using he⟩
    · have hh' : Hist gens solve (lim ++ violators law gens (solve lim) lim) := by
        intro e he
        rw [List.mem_append] at he
        rcases he with he | he
        · exact hh e he
        · obtain ⟨g, hgi, hon, hr, _, hv⟩ := mem_violators he
          refine ⟨g, lim, hgi, hr, hon, ?_⟩
          rcases hv with ⟨a, b⟩ | ⟨a, _, c⟩
          · exact Or.inl ⟨a, b⟩
          · exact Or.inr ⟨a, c⟩
      obtain ⟨a, b, c, d⟩ := ih _ lim' (good_append hg) hh' h
      exact ⟨a, b, (List.prefix_append _ _).trans c, d⟩

theorem find_key {lim : Limited} {i : Nat} (h : isLimited lim i = false) : lim.find? (fun e => e.1 == i) = none := by
  rw [List.find?_eq_none]
  intro e he
  unfold isLimited at h
  rw [List.any_eq_false] at h
  simpa using h e he

/-- **final state, generators not limited**: within limits, reported value is the solver's, and the bus is still PV -/
theorem C04_qlim_unlimited_within (gens : List Gen) (solve : Limited → Nat → Int) (fuel : Nat) (lim' : Limited)
    (h : run law gens solve fuel [] = some lim') (i : Nat) (g : Gen) (hi : gens[i]? = some g)
    (hon : g.on = true) (hr : g.isRef = false) (hl : isLimited lim' i = false) :
    g.qmin ≤ solve lim' i ∧ solve lim' i ≤ g.qmax ∧ report law gens solve lim' i = solve lim' i ∧
      pvBus gens lim' g.bus = true := by
  obtain ⟨_, _, _, hv⟩ := run_spec gens solve fuel [] lim' ⟨by simp [keys], by simp [keys]⟩ (by intro e he; cases he) h
  have hmem : (g, i) ∈ gens.zipIdx := by
    rw [List.mem_zipIdx_iff_getElem?]; simpa using hi
  have hnone : viol1 law (solve lim') lim' (g, i) = none := by
    unfold violators at hv
    rw [List.filterMap_eq_nil_iff] at hv
    exact hv _ hmem
  obtain ⟨a, b⟩ := viol1_none hnone hon hr hl
  refine ⟨?_, ?_, ?_, ?_⟩
  · have : violMin g (solve lim' i) = false := a
    unfold violMin at this
    simpa using this
  · have : violMax g (solve lim' i) = false := b
    unfold violMax at this
    simpa using this
  · unfold report
    rw [find_key hl]
  · unfold pvBus
    rw [List.any_eq_true]
    exact ⟨(g, i), hmem, by simp [hon, hl]⟩

/-- **final state, limited generators**: each reports exactly the limit it violated when it was limited -/
theorem C04_qlim_limited_at_limit (gens : List Gen) (solve : Limited → Nat → Int) (fuel : Nat) (lim' : Limited)
    (h : run law gens solve fuel [] = some lim') (i : Nat) (hl : isLimited lim' i = true) :
    ∃ g lim0, gens[i]? = some g ∧ g.isRef = false ∧
      ((report law gens solve lim' i = g.qmin ∧ solve lim0 i < g.qmin) ∨
       (report law gens solve lim' i = g.qmax ∧ g.qmax < solve lim0 i)) := by
  obtain ⟨_, hh, _, _⟩ := run_spec gens solve fuel [] lim' ⟨by simp [keys], by simp [keys]⟩ (by intro e he; cases he) h
  unfold isLimited at hl
  cases hf : lim'.find? (fun e => e.1 == i) with
  | none =>
    rw [List.find?_eq_none] at hf
    rw [List.any_eq_true] at hl
    obtain ⟨e, he, hk⟩ := hl
    exact absurd hk (by simpa using hf e he)
  | some e =>
    have hm := List.mem_of_find?_eq_some hf
    have hk : e.1 = i := by simpa using List.find?_some hf
    obtain ⟨g, lim0, hgi, hr, _, hv⟩ := hh e hm
    rw [hk] at hgi hv
    refine ⟨g, lim0, hgi, hr, ?_⟩
    obtain ⟨e1, e2⟩ := e
    rcases hv with ⟨a, b⟩ | ⟨a, b⟩
    · left
      simp only at a; subst a
      refine ⟨?_, ?_⟩
      · unfold report; rw [hf, hgi]; rfl
      · unfold violMin at b; simpa using b
    · right
      simp only at a; subst a
      refine ⟨?_, ?_⟩
      · unfold report; rw [hf, hgi]; rfl
      · unfold violMax at b; simpa using b

/-- **no generator outside its limits**: with consistent limits every non-reference generator that is on reports a
    reactive power within [qmin, qmax] -/
theorem C04_qlim_all_within (gens : List Gen) (solve : Limited → Nat → Int) (fuel : Nat) (lim' : Limited)
    (h : run law gens solve fuel [] = some lim') (i : Nat) (g : Gen) (hi : gens[i]? = some g)
    (hon : g.on = true) (hr : g.isRef = false) (hc : g.qmin ≤ g.qmax) :
    g.qmin ≤ report law gens solve lim' i ∧ report law gens solve lim' i ≤ g.qmax := by
  cases hl : isLimited lim' i with
  | false =>
    obtain ⟨a, b, c, _⟩ := C04_qlim_unlimited_within gens solve fuel lim' h i g hi hon hr hl
    rw [c]; exact ⟨a, b⟩
  | true =>
    obtain ⟨g', _, hgi, _, hv⟩ := C04_qlim_limited_at_limit gens solve fuel lim' h i hl
    rw [hi] at hgi; cases hgi
    rcases hv with ⟨a, _⟩ | ⟨a, _⟩ <;> rw [a] <;> omega

/-- non-vacuity: two generators, the second runs into its upper limit only after the first was limited (a cascade) -/
def exGens : List Gen := [⟨-10, 10, false, true, 1⟩, ⟨-5, 5, false, true, 2⟩, ⟨-100, 100, true, true, 0⟩]
def exSolve (lim : Limited) (i : Nat) : Int :=
  if lim.isEmpty then (if i = 0 then 14 else if i = 1 then 4 else 50) else (if i = 1 then 7 else if i = 0 then 0 else 55)
example : run law exGens exSolve 4 [] = some [(0, .atMax), (1, .atMax)] := by decide
example : report law exGens exSolve [(0, .atMax), (1, .atMax)] 1 = 5 := by decide

/-! ## response laws (generated expressions = documented laws, all values) -/
section laws
variable {K : Type} [Field K]

/-- load: p·scaling·(cp + ci·v + cz·v²) with cp = 1 − ci − cz (fractions given in percent) -/
theorem C04_load_law (p s czp cip v : K) :
    loadP p s 1 czp cip v = p * s * ((1 - cip / 100 - czp / 100) + cip / 100 * v + czp / 100 * v ^ 2) := by
  unfold loadP; ring

theorem C04_load_law_q (q s czq ciq v : K) :
    loadQ q s 1 czq ciq v = q * s * ((1 - ciq / 100 - czq / 100) + ciq / 100 * v + czq / 100 * v ^ 2) := by
  unfold loadQ; ring

theorem C04_load_oos (p s czp cip v : K) : loadP p s 0 czp cip v = 0 ∧ loadQ p s 0 czp cip v = 0 := by
  unfold loadP loadQ; constructor <;> ring

/-- constant-power load (fractions zero): exactly p·scaling at every voltage -/
theorem C04_load_const_power (p s v : K) : loadP p s 1 0 0 v = p * s := by
  unfold loadP; ring

/-- shunt: step·p·(v·vn_bus/vn_shunt)² -/
theorem C04_shunt_law (p step vb vn v : K) :
    shuntP p 1 step vb vn v = step * p * (v * vb / vn) ^ 2 ∧ shuntQ p 1 step vb vn v = step * p * (v * vb / vn) ^ 2 := by
  unfold shuntP shuntQ; constructor <;> ring

/-- the reported shunt power is |V|² times the admittance the network equations contain for it -/
theorem C04_shunt_consistent (p isv step vb vn v : K) :
    shuntP p isv step vb vn v = v ^ 2 * shuntGS p isv step vb vn ∧ shuntQ p isv step vb vn v = v ^ 2 * shuntBS p isv step vb vn := by
  unfold shuntP shuntQ shuntGS shuntBS; constructor <;> ring

example : loadP (2 : ℚ) (1/2) 1 30 20 (11/10) = 2 * (1/2) * (1/2 + 1/5 * (11/10) + 3/10 * (11/10)^2) := by
  unfold loadP; norm_num
end laws

end PPVerif.Props.C04
