/-
  Property C33 — DER controller set-points stay within the declared capability.
  `toSaturate`, `satQPrio`, `satPPrio`, `stepOrder` are regenerated from der_control.py.
-/
import PPVerif.Model.DerDefs
import PPVerif.Generated.C33
import Mathlib.Tactic.Ring
import Mathlib.Tactic.Linarith
import Mathlib.Tactic.Positivity
import Mathlib.Tactic.FieldSimp

namespace PPVerif.C33
open PPVerif.Der PPVerif.Generated.C33

variable {K : Type} [Field K] [LinearOrder K] [IsStrictOrderedRing K]

/-- the square-root oracle: non-negative root of non-negative arguments -/
structure SqrtOK (sq : K → K) : Prop where
  nonneg : ∀ x, 0 ≤ x → 0 ≤ sq x
  sq_eq : ∀ x, 0 ≤ x → sq x ^ 2 = x

theorem clip_bounds (x lo hi : K) (h : lo ≤ hi) : lo ≤ clip x lo hi ∧ clip x lo hi ≤ hi := by
  unfold clip
  exact ⟨le_min (le_max_right _ _) h, min_le_right _ _⟩

theorem clip_sq_le (q sat : K) (hs : 0 ≤ sat) : clip q (-sat) sat ^ 2 ≤ sat ^ 2 := by
  obtain ⟨h1, h2⟩ := clip_bounds q (-sat) sat (by linarith)
  nlinarith

/-- apparent-power step, whole: what `_saturate_sn_mva_step` returns for one element -/
def snStep (sq : K → K) (qPrio : Bool) (sat p q : K) : K × K :=
  if toSaturate sat p q then (if qPrio then satQPrio sq sat p q else satPPrio sq sat p q) else (p, q)

/-- after the apparent-power step p² + q² ≤ sat² — q priority and p priority, any operating point, sat > 0 -/
theorem C33_saturate_disk (sq : K → K) (hsq : SqrtOK sq) (qPrio : Bool) (sat p q : K) (hs : 0 < sat) :
    (snStep sq qPrio sat p q).1 ^ 2 + (snStep sq qPrio sat p q).2 ^ 2 ≤ sat ^ 2 := by
  unfold snStep
  by_cases ht : toSaturate sat p q = true
  · simp only [ht, if_true]
    cases qPrio
    · -- p priority
      simp only [satPPrio, Bool.false_eq_true, if_false]
      obtain ⟨h1, h2⟩ := clip_bounds p 0 sat (le_of_lt hs)
      have harg : 0 ≤ sat ^ 2 - clip p 0 sat ^ 2 := by nlinarith
      have e := hsq.sq_eq _ harg
      have hsg : sgnK q ^ 2 ≤ 1 := by
        unfold sgnK; split
        · norm_num
        · split <;> norm_num
      have : (sq (sat ^ 2 - clip p 0 sat ^ 2) * sgnK q) ^ 2 ≤ sat ^ 2 - clip p 0 sat ^ 2 := by
        rw [mul_pow, e]; nlinarith [sq_nonneg (sgnK q)]
      linarith
    · -- q priority
      simp only [satQPrio, if_true]
      have harg : 0 ≤ sat ^ 2 - clip q (-sat) sat ^ 2 := by linarith [clip_sq_le q sat (le_of_lt hs)]
      have e := hsq.sq_eq _ harg
      rw [e]; linarith
  · have : toSaturate sat p q = false := by simpa using ht
    simp only [this, Bool.false_eq_true, if_false]
    simp only [toSaturate, decide_eq_false_iff_not, not_lt] at this
    exact this

/-- q priority keeps the active power non-negative; p priority keeps the sign of the reactive power -/
theorem C33_saturate_signs (sq : K → K) (hsq : SqrtOK sq) (sat p q : K) (hs : 0 < sat) :
    0 ≤ (satQPrio sq sat p q).1 ∧ 0 ≤ (satPPrio sq sat p q).1 ∧ 0 ≤ (satPPrio sq sat p q).2 * q := by
  refine ⟨?_, ?_, ?_⟩
  · simp only [satQPrio]
    exact hsq.nonneg _ (by linarith [clip_sq_le q sat (le_of_lt hs)])
  · simp only [satPPrio]; exact (clip_bounds p 0 sat (le_of_lt hs)).1
  · simp only [satPPrio]
    obtain ⟨h1, h2⟩ := clip_bounds p 0 sat (le_of_lt hs)
    have h0 := hsq.nonneg (sat ^ 2 - clip p 0 sat ^ 2) (by nlinarith)
    have : 0 ≤ sgnK q * q := by
      unfold sgnK; split
      · rename_i h; linarith
      · split
        · rename_i h; linarith
        · simp
    nlinarith [mul_nonneg h0 this]

/-- the apparent-power step is the last step of `_saturate` (the area step cannot undo it) -/
theorem C33_step_order : stepOrder = ["area", "sn"] := by decide

/-- area step: for an area whose `in_area` is sound (in_area ⇒ q within the flexibility) and whose flexibility is
    non-empty, the reactive power after the step lies within the flexibility -/
theorem C33_area_step_in_flex (inArea : Bool) (lo hi q : K) (hne : lo ≤ hi)
    (hsound : inArea = true → lo ≤ q ∧ q ≤ hi) : lo ≤ areaStep inArea lo hi q ∧ areaStep inArea lo hi q ≤ hi := by
  unfold areaStep
  cases inArea
  · simpa using clip_bounds q lo hi hne
  · simpa using hsound rfl

/-- soundness of `BaseArea.in_area` (defined through the flexibility): QV areas, polygon-free PQV parts -/
theorem C33_flex_in_area_sound (fl : K × K) (q : K) (h : flexInArea fl q = true) : fl.1 ≤ q ∧ q ≤ fl.2 := by
  simpa [flexInArea] using h

/-- soundness of `PQArea4120.in_area` / `PQArea4130.in_area` against its own `q_flexibility`, for every p and q,
    whenever min_q ≤ −0.1 and p0 < p1 (true for all VDE variants).  (The lower band test of in_area is written with
    the opposite sign of the flexibility's; it is stricter, never laxer — which is why soundness still holds.) -/
theorem C33_pq4120_in_area_sound (a : PQ4120 K) (hp : a.p0 < a.p1) (hmin : a.minQ ≤ -(1 / 10))
    (p q : K) (h : a.inArea p q = true) : (a.flex p).1 ≤ q ∧ q ≤ (a.flex p).2 := by
  simp only [PQ4120.inArea, Bool.and_eq_true, Bool.not_eq_true', Bool.and_eq_false_iff, Bool.or_eq_false_iff,
    decide_eq_false_iff_not, not_lt, decide_eq_true_eq] at h
  obtain ⟨⟨h1, h2⟩, h3a, h3b⟩ := h
  have hd : 0 < a.p1 - a.p0 := sub_pos.mpr hp
  have hli : a.linInd ≤ 0 := by
    unfold PQ4120.linInd; exact div_nonpos_of_nonpos_of_nonneg (by linarith) (le_of_lt hd)
  unfold PQ4120.flex
  by_cases c0 : p < a.p0
  · simp only [c0, if_true]
    rcases h1 with h1 | h1
    · exact absurd c0 (not_lt.mpr h1)
    · exact h1
  · have c0' : a.p0 ≤ p := not_lt.mp c0
    by_cases c1 : p < a.p1
    · simp only [c0, c1, if_true, if_false]
      refine ⟨?_, h3b⟩
      have : (p - a.p0) * a.linInd ≤ 0 := mul_nonpos_of_nonneg_of_nonpos (sub_nonneg.mpr c0') hli
      linarith
    · simp only [c0, c1, if_false]
      have c1' : a.p1 ≤ p := not_lt.mp c1
      rcases lt_or_eq_of_le c1' with hgt | heq
      · rcases h2 with h2 | h2
        · exact absurd hgt (not_lt.mpr h2)
        · exact h2
      · -- p = p1: only the band test applies; it implies the box
        subst heq
        have e1 : (a.p1 - a.p0) * a.linInd = a.minQ + 1 / 10 := by
          unfold PQ4120.linInd; field_simp
        have e2 : (a.p1 - a.p0) * a.linCap = a.maxQ - 1 / 10 := by
          unfold PQ4120.linCap; field_simp
        rw [e1] at h3a; rw [e2] at h3b
        constructor <;> linarith

/-- a point inside both partial areas of a PQV area is inside the merged flexibility -/
theorem C33_merge_sound (a b : K × K) (q : K) (ha : a.1 ≤ q ∧ q ≤ a.2) (hb : b.1 ≤ q ∧ q ≤ b.2) :
    ∃ m, mergeFlex a b = some m ∧ m.1 ≤ q ∧ q ≤ m.2 := by
  unfold mergeFlex
  have hlo : max a.1 b.1 ≤ q := max_le ha.1 hb.1
  have hhi : q ≤ min a.2 b.2 := le_min ha.2 hb.2
  have : ¬ min a.2 b.2 < max a.1 b.1 := not_lt.mpr (le_trans hlo hhi)
  simp only [this, if_false]
  exact ⟨_, rfl, hlo, hhi⟩

/-- damping: the written point is a convex combination of the previous point and the saturated target
    (damping_coef ≥ 1), so it stays inside the apparent-power disk when the previous point was inside -/
theorem C33_damping_convex (coef sat p0 q0 p1 q1 : K) (hc : 1 ≤ coef)
    (h0 : p0 ^ 2 + q0 ^ 2 ≤ sat ^ 2) (h1 : p1 ^ 2 + q1 ^ 2 ≤ sat ^ 2) :
    damp coef p0 p1 ^ 2 + damp coef q0 q1 ^ 2 ≤ sat ^ 2 := by
  have hc0 : 0 < coef := by linarith
  set a := 1 / coef with ha
  have ha0 : 0 ≤ a := by positivity
  have ha1 : a ≤ 1 := by rw [ha, div_le_one hc0]; exact hc
  have e : ∀ x y : K, damp coef x y = (1 - a) * x + a * y := by
    intro x y; unfold damp; rw [ha]; field_simp; ring
  rw [e, e]
  have hb0 : 0 ≤ 1 - a := by linarith
  nlinarith [mul_nonneg ha0 hb0, sq_nonneg (p0 - p1), sq_nonneg (q0 - q1),
    mul_nonneg (mul_nonneg ha0 hb0) (add_nonneg (sq_nonneg (p0 - p1)) (sq_nonneg (q0 - q1))),
    mul_le_mul_of_nonneg_left h0 hb0, mul_le_mul_of_nonneg_left h1 ha0]

/-- … and inside a fixed flexibility interval -/
theorem C33_damping_interval (coef lo hi q0 q1 : K) (hc : 1 ≤ coef) (h0 : lo ≤ q0 ∧ q0 ≤ hi) (h1 : lo ≤ q1 ∧ q1 ≤ hi) :
    lo ≤ damp coef q0 q1 ∧ damp coef q0 q1 ≤ hi := by
  have hc0 : 0 < coef := by linarith
  set a := 1 / coef with ha
  have ha0 : 0 ≤ a := by positivity
  have ha1 : a ≤ 1 := by rw [ha, div_le_one hc0]; exact hc
  have e : damp coef q0 q1 = (1 - a) * q0 + a * q1 := by unfold damp; rw [ha]; field_simp; ring
  rw [e]
  have hb0 : 0 ≤ 1 - a := by linarith
  constructor <;> nlinarith [mul_le_mul_of_nonneg_left h0.1 hb0, mul_le_mul_of_nonneg_left h1.1 ha0,
    mul_le_mul_of_nonneg_left h0.2 hb0, mul_le_mul_of_nonneg_left h1.2 ha0]

/-- at convergence (the step no longer moves the point) the point IS the saturated target -/
theorem C33_converged_is_target (coef cur target : K) (hc : coef ≠ 0) (h : damp coef cur target = cur) : target = cur := by
  unfold damp at h
  have : (target - cur) / coef = 0 := by linarith
  rcases div_eq_zero_iff.mp this with h' | h'
  · linarith
  · exact absurd h' hc

/-- the damping hypothesis is needed: from a start point outside the disk one damped step does not reach it -/
theorem C33_witness_damped_start_outside :
    damp (2 : ℚ) 3 1 ^ 2 + damp (2 : ℚ) 0 0 ^ 2 > 1 ^ 2 := by norm_num [damp]

/-- non-vacuity of the 4120 hypotheses: variant 2 -/
example : ((5 : ℚ) / 100 < 2 / 10) ∧ ((-328684 : ℚ) / 1000000 ≤ -(1 / 10)) := by norm_num

end PPVerif.C33
