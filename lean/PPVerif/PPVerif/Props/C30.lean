/-
  Property C30 — diagnostics are stateless: options passed to / functions registered on one Diagnostic instance
  never affect other instances or later calls.
-/
import PPVerif.Model.DiagHeap
import PPVerif.Generated.C30

namespace PPVerif.C30
open PPVerif.DiagHeap

/-- Refinement (every history, any number of instances): with copy bindings and a per-call merge, every
    `diagnose_network` call works with exactly `defaults ++ functions registered on that instance` and
    `{**defaults, **kwargs of that call}` — the abstract per-instance model, which has no shared state at all. -/
theorem C30_instance_local (dk : Dict) (df : List Nat) (ops : List Op) :
    run ⟨.copy, .copy, false⟩ (init dk df) ops = arun dk df [] ops :=
  run_refines dk df ops (init dk df) [] ⟨rfl, rfl, rfl⟩

/-- the binding semantics found in the source (regenerated on every run) are the safe ones -/
theorem C30_code_sem : PPVerif.Generated.C30.codeSem = ⟨.copy, .copy, false⟩ := by decide

/-- hence the code as it is now refines the stateless specification, for every history -/
theorem C30_code_refines (dk : Dict) (df : List Nat) (ops : List Op) :
    run PPVerif.Generated.C30.codeSem (init dk df) ops = arun dk df [] ops := by
  rw [C30_code_sem]; exact C30_instance_local dk df ops

/-- in the specification, a call's observation does not depend on calls made on *other* instances or on earlier
    `diagnose` calls at all: `diagnose` never changes the abstract state -/
theorem C30_spec_diagnose_pure (dk : Dict) (df : List Nat) (a : ASt) (i : Nat) (kw : Dict) :
    (astep dk df a (.diagnose i kw)).1 = a := by
  simp only [astep]; split <;> rfl

/-! ### negation witnesses: each unsafe semantics is observably wrong (these are theorems about the model;
    the harness replays the same histories on the implementation) -/

def dk0 : Dict := fun k => if k = "tol" then some 3 else none
def kw5 : Dict := fun k => if k = "tol" then some 5 else none

/-- aliasing the module dict + in-place update: a *second instance* sees the first one's option -/
theorem C30_witness_alias_kwargs :
    ((run ⟨.alias, .copy, true⟩ (init dk0 [1, 2]) [.new true, .new true, .diagnose 0 kw5, .diagnose 1 Dict.empty]).getD 3 none).map
      (fun o => o.args "tol") = some (some 5) ∧
    ((arun dk0 [1, 2] [] [.new true, .new true, .diagnose 0 kw5, .diagnose 1 Dict.empty]).getD 3 none).map
      (fun o => o.args "tol") = some (some 3) := by decide

/-- own copy but in-place update: a *later call on the same instance* sees the earlier call's option -/
theorem C30_witness_sticky :
    ((run ⟨.copy, .copy, true⟩ (init dk0 [1, 2]) [.new true, .diagnose 0 kw5, .diagnose 0 Dict.empty]).getD 2 none).map
      (fun o => o.args "tol") = some (some 5) := by decide

/-- aliasing the module function list: a function registered on one instance runs in another -/
theorem C30_witness_alias_functions :
    ((run ⟨.copy, .alias, false⟩ (init dk0 [1, 2]) [.new true, .new true, .register 0 7, .diagnose 1 Dict.empty]).getD 3 none).map
      (fun o => o.fns) = some [1, 2, 7] ∧
    ((arun dk0 [1, 2] [] [.new true, .new true, .register 0 7, .diagnose 1 Dict.empty]).getD 3 none).map
      (fun o => o.fns) = some [1, 2] := by decide

/-- non-vacuity: a history with two instances, a registration and options, observed through the code semantics -/
example :
    ((run PPVerif.Generated.C30.codeSem (init dk0 [1, 2])
        [.new true, .new false, .register 1 9, .diagnose 0 kw5, .diagnose 1 kw5, .diagnose 0 Dict.empty]).map
      (fun o => o.map (fun o => (o.fns, o.args "tol")))) =
    [none, none, none, some ([1, 2], some 5), some ([9], some 5), some ([1, 2], some 3)] := by decide

end PPVerif.C30
